#!/bin/sh
# run every claimed check (quick) and print exit codes
cd "$(dirname "$0")/.."
for id in $(python3 -c "import json; print(' '.join(c['property_id'] for c in json.load(open('MANIFEST.json'))['checks']))"); do
  s=$(date +%s); L=${VERIF_LOGDIR:-/tmp}/all_${1:-quick}_$id.log; ./check $id --tier ${1:-quick} > $L 2>&1; e=$?
  echo "$id exit=$e $(( $(date +%s) - s ))s $(grep -cE "^(VIOLATION|HARNESS-ERROR)" $L) alarms; $(tail -1 $L | cut -c1-140)"
done
