#!/bin/sh
# run every claimed check (quick) and print exit codes
cd "$(dirname "$0")/.."
for id in $(python3 -c "import json; print(' '.join(c['property_id'] for c in json.load(open('MANIFEST.json'))['checks']))"); do
  s=$(date +%s); ./check $id --tier ${1:-quick} > /tmp/all_$id.log 2>&1; e=$?
  echo "$id exit=$e $(( $(date +%s) - s ))s $(grep -cE '^(VIOLATION|HARNESS-ERROR)' /tmp/all_$id.log) alarms; $(tail -1 /tmp/all_$id.log | cut -c1-140)"
done
