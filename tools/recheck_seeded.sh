#!/bin/sh
# recheck_seeded.sh <ID> [<ID> ...]: run the quick check of each property against every stored seeded change of it
# (scratch worktrees, /repo untouched) and print one line per change.
for id in "$@"; do
  for d in /verif/seeded/$id-m*; do
    n=$(basename $d)
    out=$(/verif/tools/try_seeded.sh $n 2>&1)
    e=$(echo "$out" | tail -1)
    v=$(echo "$out" | grep -c "^VIOLATION")
    h=$(echo "$out" | grep -c "^HARNESS-ERROR")
    echo "$n $e violations=$v harness_errors=$h"
  done
done
