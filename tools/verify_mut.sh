#!/bin/sh
# verify_mut.sh <ID> <m1|m2> : confirm a sub-agent's mutation in its scratch worktree,
# then store it under /verif/seeded/<ID>-<mk>/
ID=$1; MK=$2; WT=/tmp/wt/$ID; OUT=$WT/_out/$MK
cd $WT || exit 2
git checkout -q -- svgpathtools
PYTHONPATH=$WT /venv/bin/python $OUT/demo.py >/tmp/wt/$ID.$MK.clean.log 2>&1; C=$?
git apply $OUT/patch.diff || { echo "patch does not apply"; exit 2; }
/venv/bin/python -m pytest -q -p no:cacheprovider --timeout=900 2>&1 | tail -1 > /tmp/wt/$ID.$MK.tests.log
PYTHONPATH=$WT /venv/bin/python $OUT/demo.py >/tmp/wt/$ID.$MK.mut.log 2>&1; M=$?
git checkout -q -- svgpathtools
T=$(cat /tmp/wt/$ID.$MK.tests.log)
echo "$ID $MK: demo clean exit=$C mutated exit=$M tests: $T"
case "$T" in *"92 passed"*) case "$T" in *failed*) TOK=0;; *) TOK=1;; esac;; *) TOK=0;; esac
if [ $C = 0 ] && [ $M = 1 ] && [ $TOK = 1 ]; then
  D=/verif/seeded/$ID-$MK; mkdir -p $D
  cp $OUT/patch.diff $OUT/demo.py $D/; cp $OUT/notes.md $D/notes.md 2>/dev/null
  echo CONFIRMED
else echo REJECTED; fi
