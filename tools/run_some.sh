#!/bin/sh
# run_some.sh <tier> <ID> [<ID> ...]: like run_all.sh for a selection
cd "$(dirname "$0")/.."
T=$1; shift
for id in "$@"; do
  s=$(date +%s); L=${VERIF_LOGDIR:-/tmp}/some_${T}_$id.log; ./check $id --tier $T > $L 2>&1; e=$?
  echo "$id exit=$e $(( $(date +%s) - s ))s $(grep -cE "^(VIOLATION|HARNESS-ERROR)" $L) alarms; $(tail -1 $L | cut -c1-140)"
done
