#!/usr/bin/env python3
"""Regenerates /verif/MANIFEST.json from the table below (kept in one place so
that the manifest is always valid and in step with what is built)."""
import json
import os

HERE = os.path.dirname(os.path.dirname(os.path.abspath(__file__)))

ENGINE = 'symx'
TECH = 'bounded symbolic execution of the real code (z3 QF_NRA/LRA/UF/FP); counterexamples replayed'

# id -> dict(text, note, design, technique)
CLAIMED = {
    'C03': dict(
        text='For degree 1..3 the real point/poly/points/derivative/bez2poly/poly2bez/bpoints2bezier are executed on symbolic '
             'complex control points and symbolic t; z3 shows each result equals an independent Bernstein oracle for ALL values '
             '(polynomial identities, derivative orders 1..5, all poly1d zero-trimming forks), also after in-place reassignment '
             'of the control points.  Bounded only in degree (the classes fix it) and derivative order.',
        note='Reals, not IEEE doubles (the "to within rounding" clause is outside). numpy.poly1d arithmetic on dtype=object is executed, not modelled. z3 5.1 trusted; two obligations per family re-checked with cvc5.',
        design='3/C03'),
    'C19': dict(
        text='bezier_point, bezier2polynomial (incl. general-degree branch), polynomial2bezier, split_bezier, halve_bezier, bernstein '
             'are executed on symbolic control points for every degree 0..8 and shown by z3 to equal an independent Bernstein oracle '
             '(identities, all values).  polyroots/polyroots01 run on a stubbed np.roots returning an arbitrary list of m<=4 (thorough 5) '
             'roots in arbitrary order: z3 shows every simple real root in [0,1] occurs exactly once.  rational_limit runs on poly1d '
             'objects with symbolic coefficients f=(t-t0)^m f1, g=(t-t0)^m g1, m<=3, deg<=2: returns f1(t0)/g1(t0), raises only when no limit.',
        note='np.roots is a stub (exact roots, arbitrary order; LAPACK accuracy outside). numpy.trim_zeros replaced by its sequential definition for object arrays. Reals, not doubles. n_choose_k checked by concrete exhaustive evaluation for n<=8.',
        design='3/C19'),
    'C01': dict(
        text='The real Path.d runs on Paths of n<=3 (thorough 4) symbolic segments, all 4^n type mixes x all 8 option combinations; '
             'every coincidence pattern of end/control points (continuity, closure, S/T smoothness) is a fork decided by z3. The string '
             'goes through the real tokenizer and the real _parse_path; z3 (QF_LRA) shows the parsed path has the same length, classes, '
             'arc flags and defining points for ALL coordinates of that pattern.  Absolute form without S/T: parsed coordinates are the '
             'input doubles themselves (no arithmetic), hence exact.',
        note='Numbers cross format()/float() as placeholder literals (models float(repr(x))==x); Arc._parameterize is a no-op here; relative-form rounding is outside (reals); no zero-length Line; radii > 0.',
        design='3/C01'),
    'C02': dict(
        text='State machine: every program M c1..ck over the 20 command letters (k<=2 quick + all "curve, any, S/T" programs of length 3; '
             'k<=3 thorough), with implicit-repetition variants, is parsed by the real _parse_path from a token stream with symbolic '
             'arguments; z3 compares the segment list with a reference interpreter written from the SVG spec for ALL argument values '
             '(exceptions on grammatical programs are violations).  Lexer: the live FLOAT_RE/COMMAND_RE are translated to z3 regular '
             'expressions: language equality with the SVG number grammar, maximal-munch obligations for adjacent numbers (explicit, sign, '
             'dot separators), separator and command-letter obligations, arc flags without separators.',
        note='Arc._parameterize no-op; flags enumerated; arcs ending at the current point excluded; leftmost-longest matching of FLOAT_RE assumed (witnesses go through the real re); token length <= 8 (12 thorough). One recorded known finding (arc flags without separators).',
        design='3/C02'),
    'C05': dict(
        text='Real _calc_lengths/T2t/t2T/point/length(T0,T1)/iscontinuous/isclosed/continuous_subpaths run on paths of n<=4 stub segments '
             '(length = free real l_i >= 0, point = uninterpreted f_k): z3 decides t in [0,1], bracketing by cumulative fractions, '
             't2T(T2t(T)) = T, point(T) = f_k(t), end points, no exception for T in [0,1] (reals), composition of length(T0,T1), and the '
             'predicates against their definitions for every coincidence pattern.  Totality under rounding: the same code runs on IEEE '
             'binary64 symbolic values (QF_FP, n=3; thorough n=2..4): every control path must return a value; an exception path is '
             'queried for reachability (sampled hints evaluated by z3, then cvc5/z3 race) and replayed.',
        note='FP part: lengths in [1e-3,1e3]; builtin sum modelled as CPython 3.12 Neumaier summation; zero-division leaves asked with a 3 s budget and reported inconclusive when z3 does not answer. point() of real segments is C03/C04.',
        design='3/C05'),
    'C09': dict(
        text='Line/Quadratic/Cubic reversed, split, cropped(0,t1), cropped(t0,1) (Line: also interior) run on symbolic control points and '
             'parameters and are shown by z3 to trace point(1-u), point(u t), point(t+u(1-t)), point(t0+u(t1-t0)) (identities, all values). '
             'Interior crop: the real crop_bezier runs with radialrange replaced by its contract (returns the parameter of the queried point); '
             'composition, queried point and trimmed curve are checked.  Path.reversed / Path.cropped run on n<=3 stub segments (wrap-around '
             'n=2, thorough 3..4): piece list compared with a measure/adjacency/location oracle for all T0,T1 incl. joints.',
        note='Arc.reversed/split/cropped are not covered yet (Angle domain). Path.cropped positions compared up to 2.5e-5 (np.isclose snapping); one recorded known finding (snapping window at joints / path ends). radialrange optimality is C13.',
        design='3/C09'),
    'C10': dict(
        text='Bezier segments (degree 1..3, symbolic control points): translated, rotated (given and default origin), scaled (uniform, '
             'non-uniform, given/default origin) and transform(seg, M) with a symbolic affine matrix are executed and z3 shows '
             'op(seg).point(t) = OP(point(t)) for all values.  Arc: translated/rotated/uniform scaled build the new Arc from the transformed '
             'end points, same (scaled) radii, rotation(+degs), flags, default origin = centre; non-uniform scaled() raises.  Joints: '
             'transform_segments_together on n<=3 (thorough 4) segments, every coincidence pattern incl. the closing joint: end/start terms '
             'abstracted to uninterpreted arithmetic, z3 (QF_UF) shows previously coinciding joints stay identical for any arithmetic. Arc branch of transform(): executed with a symbolic affine matrix per class (similarity, diagonal, shear, reflection, general), symbolic radii/end points, rotation with rational cos/sin, all flag combinations; inv/det closed forms, eigh by its contract; new radii/rotation = spectral form, matrix handed to eigh pulled back by A = old ellipse form, end points mapped, large_arc kept, sweep flipped iff det < 0 (equalities through z3-checked certificates). Integer-dtype matrices.',
        note='Rotation angle as a unit pair (c,s). Arc geometry itself is C04 (here _parameterize is a stub with a free centre). The Arc branch of transform() is not covered yet (raises TypeError under numpy 2.5 in this environment; see DESIGN). UF-sat answers are confirmed on random doubles in the replay.',
        design='3/C10'),
    'C13': dict(
        text='Line.radialrange closed form on symbolic end points / query point: t in [0,1], d=|point(t)-z|, dmin <= |point(u)-z| <= dmax for '
             'every u in [0,1] (z3, all values).  bezier_radialrange degree 2,3: the polynomial handed to np.roots is captured and shown to be '
             'd/dt|B(t)-z|^2; the selection of min/max over {0,1}+returned roots is shown correct for an arbitrary distance profile and an '
             'arbitrary separated root list (<=2 real roots quick for quadratics, <=1 for cubics; thorough up to 3/4).  Path.radialrange / '
             'closest / farthest_point_in_path on n<=3 stub segments: global extreme and index.',
        note='Complete-roots contract for np.roots + extreme value theorem are trusted to conclude global optimality for curves; zero-length Line excluded; generic leading coefficients in quick (degenerate shapes in thorough).',
        design='3/C13'),
    'C08': dict(
        text='bezier_real_minmax (closed-form cubic branch, all its forks), the degenerate-cubic and quadratic routes through polyroots '
             '(np.roots = exact symbolic root finder, degree <= 2), Line.bbox and Path.bbox run on symbolic coordinates.  Per control path '
             'z3 (nlsat) is asked for a t in [0,1] at which the coordinate polynomial leaves [min,max] (containment, decided directly, no '
             'calculus step trusted) and shows min/max are attained at 0, 1 or a critical point in [0,1] (tightness; the roots of B\' '
             'enter through Vieta hypotheses).  Path.bbox = union of n<=3 symbolic boxes. Arc.bbox: the real Arc.bbox/Arc.point run with exact degree arithmetic (pi = the angle of 180 degrees), cos/sin as an uninterpreted function of the degree value, theta/delta/centre symbolic, radii and rotation (rational cos/sin) concrete per family; containment for an arbitrary swept angle and tightness against an amplitude/phase oracle (UF + linear real arithmetic).  Path.bbox after every single in-place edit.',
        note='math.sqrt mapped to a sqrt atom, min/max in bezier.py to If-terms. Hard per-query limits (forked solver); a timed-out query is reported inconclusive.',
        design='3/C08'),
    'C16': dict(
        text='Every history of k<=2 (thorough 3) mutations over {setitem, slice assignment, insert, append, extend, delitem, pop, reverse, '
             'start=, end=} with small positive/negative index arguments is applied to a real Path of symbolic Lines whose length/point '
             'kernels are uninterpreted functions of (start,end); before and after every mutation length/start/end/bbox/d/len/== '
             '(and T2t/point for k=1) are evaluated on the mutated object and on a fresh Path of the current segments and z3 decides whether '
             'they can differ.  CubicBezier length cache: quadrature kernels uninterpreted in (control points,t0,t1,error,min_depth); '
             'histories length(e1,d1) -> [reassign | reversed] -> length(e2,d2), both scipy configurations.  eq => hash: fields read by '
             '__eq__/__hash__ traced on the real classes, hash = uninterpreted function of them (QF_UF).',
        note='One recorded known finding (Path eq ignores _closed, hash includes it; the suite pins both). QuadraticBezier has no effective cache (closed form recomputed) and is not a family. Histories longer than the bound are outside.',
        design='3/C16'),
    'C14': dict(
        text='Path.area runs (real poly1d multiply/deriv/integ on symbolic coefficients) on closed paths of 1..4 Line/Quadratic/Cubic segments '
             'with symbolic control points; z3 shows area = independent Green integral of the power-basis coefficients, > 0 for a '
             'counter-clockwise triangle / convex quadrilateral, sign flip under reversed(), invariance under translated(), factor sx*sy '
             'under scaled(), factor det under transform() (identities, all values).  path_encloses_pt runs through Path.intersect / '
             'Line.intersect on a concrete triangle (quick 1, thorough 3 shapes, both orientations) with symbolic query and outside point '
             'in general position and is compared with the orientation-test oracle. is_contained_by as a composition of its parts (crossing test, boxes, enclosure test as stubs with their contracts). Arc x Line closed form (shared with C11).',
        note='poly1d zero-trimming of symbolic leading coefficients disabled in the area families (value-preserving). Arcs (chord approximation), is_contained_by, polygons beyond 4 edges and Bezier boundaries for enclosure are outside. Enclosure queries that z3 does not finish in 60 s are reported inconclusive.',
        design='3/C14'),
    'C07': dict(
        text='inv_arclength runs on a Line (symbolic end points), on a CubicBezier subclass whose length(t1=t) is an uninterpreted strictly '
             'increasing function (unrolled through its own maxits parameter, m<=3 quick / 5 thorough) and on Paths of n<=3 stub segments '
             '(recursive call intercepted for segments, symbolic segment equality): ValueError iff s outside [0,L]; ilength(0)=0, '
             'ilength(L)=1; Line: s/L; returned t in [0,1] with |ell(t)-s| < s_tol; Path: chosen segment contains s, result = '
             't2T(k, inv_k(s-lsum)).  Termination in binary64: the loop body is cut out of the current source (ast), executed on IEEE '
             'binary64 symbolic values from an arbitrary state 0<=lo<hi<=1: no non-returning step leaves (lo,hi) unchanged (QF_FP), '
             'and the midpoint stays in [lo,hi].',
        note='Accuracy w.r.t. the true arc length depends on length() (C06 unclaimed part). That <=1100 strict shrinkings exhaust the doubles in [0,1] is an argument, not a query.',
        design='3/C07'),
    'C15': dict(
        text='Quadratic/Cubic/Line unit_tangent, normal, curvature on symbolic control points and t: at regular points z3 shows the unit tangent '
             'is the positive unit multiple of the independently built derivative, normal = -i*tangent, curvature*|B\'|^3 = |x\'y\'\'-y\'x\'\'| '
             '(the sqrt the code takes is captured), Line curvature 0.  Singular end points (P0=P1, P0=P1=P2, mirror cases at t=1, '
             'quadratic P0=P1 / P1=P2): the real ZeroDivisionError route through rational_limit and the complex square root '
             '(principal-root stub) is executed and the result is compared with the direction of travel with its sign. Arc.unit_tangent/normal/curvature against the ellipse\'s closed forms in the eccentric angle (certificates).',
        note='Two single-coincidence cubic cases are run with the singular point anchored at the origin in quick (free in thorough). Arc tangent/curvature are consequences of the arc derivative identities (C04). Interior cusps and numpy-scalar inputs outside.',
        design='3/C15'),
    'C11': dict(
        text='Line x Line closed form on symbolic end points: every returned pair is in [0,1]^2, the two points coincide, operand swap returns '
             'the exchanged pair.  Line x Quadratic/Cubic: the polynomial handed to np.roots is captured and shown to be the signed distance '
             'to the carrier line; with np.roots stubbed by symbolic roots of it every returned (bez_t,line_t) is in range and a common '
             'point, both call directions (quadratic <=1 root, cubic 0 roots quick; more in thorough).  The control-polygon pre-filters never '
             'reject curves sharing a point.  Subdivision acceptance (box_area < tol) examined as a function.  Path.intersect on stub '
             'segments: triples coherent (T = t2T(seg,t)), de-duplication only drops near-duplicates. First iteration of the real bezier_intersections on symbolic boxes. Arc x Line closed form (candidate points, precondition rotation == 0, assembly), Arc x Bezier pairing, Arc.point_to_t (rotation 0; acos/asin as piecewise-linear folds in degrees; all loops and isclose tests executed), Line.point_to_t, Arc.phase2t, the Arc x Bezier root polynomial (= implicit ellipse equation along the curve), and Arc x Arc for two unrotated circles (candidates on both circles, tangent cases, assembly).',
        note='One recorded known finding (acceptance by box area). Arc pairs, subdivision termination and numeric margins outside. Line start anchored at the origin in the quick Line x Bezier families.',
        design='3/C11'),
    'C12': dict(
        text='Line x Line: symbolic segments crossing at interior parameters (u1,u2), angle >= 6 degrees => exactly [(u1,u2)] returned.  '
             'Quadratic/Cubic x Line: root list containing the true parameter (complete-roots contract) otherwise arbitrary => the pair is '
             'returned exactly once, both call directions.  Control-polygon pre-filters of all 8 Bezier type pairs never reject curves '
             'sharing a point.  boxes_intersect on symbolic boxes (common point => True).  ApproxSolutionSet and Path.intersect '
             'de-duplication drop only entries within tol.  Pruning boxes contain the curve (degenerate cubic / quadratic routes). All cubic bbox shards. Arc x Line closed form: every common point of ellipse and line is a candidate; Arc.point_to_t / Line.point_to_t answer None only off the arc / segment; Arc x Bezier pairing drops no in-range pair.',
        note='One recorded known finding (boxes_intersect on zero-width overlaps). Arc pairs, subdivision convergence and the redundant-pair removal loop outside. np.roots completeness is a contract.',
        design='3/C12'),
    'C06': dict(
        text='Only the algebraic parts of C06 are claimed.  Line.length identity.  QuadraticBezier.length: the quadratic under the root is '
             'the squared speed (identity); the closed-form term returned by the real code (sqrt atoms, uninterpreted ln) is differentiated '
             'by the harness and ds/dt1 = speed, s(t0,t0)=0 are posed over abstract (c2,c1,c0); collinear fold-back quadratics: numpy '
             'nan semantics modelled by a token, the isnan fallback runs and its piecewise formulas are compared with |a| int |2t-m| dt.  '
             'segment_length (no-scipy recursion) with uninterpreted point(): dyadic partition, result = chord sum, min_depth honoured.  '
             'Path.length / length(T0,T1) on stub segments (shared with C05). CubicBezier.length / Arc.length dispatch with and without scipy: integrators replaced by an uninterpreted kernel with the arc-length contract; interval, integrand (= |B\'| as an identity), fallback arguments; a returned term that is not the kernel must satisfy s(t0,t0)=0 and ds/dt1 = speed.  The quadratic closed form\'s ds/dt1 = speed is discharged through a z3-checked ideal-membership certificate.',
        note='NOT claimed: that QUADPACK / the chord recursion converge to the true arc length of cubics and arcs (C/Fortran behind a boundary, no closed form), the cusp clause, cancellation for nearly collinear control points. The ds/dt1 = speed query currently comes back unknown from z3 within 120 s and is reported inconclusive (hand-normalised form is unsat in ms; see DESIGN).',
        design='3/C06'),
    'C20': dict(
        text='smoothed_path / smoothed_joint run on polylines with symbolic maxjointsize and tightness: open path (0,0)->(4,0)->V2 with '
             'symbolic V2 (all corner angles with |sin|>=0.05, second edge from 0.01 to ~30 long), a concrete closed triangle and a '
             'concrete closed quadrilateral whose closing joint is already smooth (thorough: symbolic closed shapes, 4-point paths).  z3 '
             'decides with an oracle independent of unit_tangent: result continuous (closed stays closed, no repeated segment), end/start '
             'directions of consecutive segments parallel with positive dot product (no kink), open path keeps its end points, elbow control '
             'points within maxjointsize/2 of the corner, trimmed lines are sub-segments of the originals; one-segment path unchanged.',
        note='Cubic-cubic and line-cubic joints are outside (they chain ilength/cropped/radialrange: C07/C09/C13). Corner angles bounded away from 0/180 degrees. Reals.',
        design='3/C20'),
    'C17': dict(
        text='parse_transform on every transform kind / argument count / separator spelling and every list of <=2 transforms with symbolic '
             'arguments (placeholder tokens; cos/sin/tan as unit-pair atoms): z3 shows the matrix equals the left-to-right product of the SVG '
             '1.1 s7.6 matrices.  rect (plain, rx, ry, both; as attribute dict and as ElementTree element), circle, ellipse, line, polyline, '
             'polygon with symbolic attributes: converter output parsed by the real parser equals the SVG s9 geometry.  Traversal: 9 '
             'document templates (groups to depth 2, transform on nodes/leaves, path/line/polyline/polygon leaves, two siblings) through '
             'Document.paths, paths_from_group, svg2paths and SaxDocument.flatten_all_paths vs a reference flattener.',
        note='XML layers run concretely on the token strings. Transformed arcs (circle/ellipse/rounded rect under a non-identity transform) are outside: the Arc branch of transform() raises TypeError under numpy 2.5 here. rx/ry clamping of rounded rects is outside. Nesting deeper than 2 outside.',
        design='3/C17'),
    'C18': dict(
        text='The I/O stack runs concretely; the payload is symbolic: lists of 1-2 paths of 1-2 Line/Quadratic/Cubic/Arc segments with symbolic '
             'coordinates are written with wsvg / Document.add_path+save / SaxDocument.save and read back with svg2paths2, Document.paths, '
             'SaxDocument (9 writer x reader pairs): same number, order and segments for all coordinates of every coincidence pattern '
             '(z3), per-path attributes (incl. a namespace-prefixed one) and svg-level attribute sets (full, width only, height only) '
             'come back unchanged.  Document histories new/loaded x root/group: an added path is returned by paths() before and after '
             'save/reload. Attribute names shared between <svg> and <path> with different values; the same path data written twice with different attributes; attributes read back from SaxDocument.tree.',
        note='The solver decides the coordinate/coincidence part (as in C01); the rest is structural comparison on each explored path. One recorded known finding (Document.add_path element is un-namespaced). XML and file-system layers are executed, not modelled.',
        design='3/C18'),
    'C04': dict(
        text='The real Arc constructor/_parameterize/point/derivative/reversed/cropped/as_*_curves run on arcs given THROUGH THEIR ELLIPSE: '
             'centre symbolic, radii from {2x1, negative-signed}, rotation from 4 (thorough 9) angles with rational cos/sin (0, 90, 180, '
             '36.87.. degrees, ...), start direction a rational unit vector, END DIRECTION SYMBOLIC (rational parametrisation of the circle), '
             'all four flag combinations with the orientation chosen so that the flags select this ellipse; and the too-small-radii case '
             '(scale factor k > 1 symbolic).  z3 decides per control path: radii = |r|*max(1,sqrt(Lambda)), centre, point(0)=start, '
             'point(1)=end, point(t) on the ellipse, theta/delta as points of the unit circle, delta>0 iff sweep, |delta|>=180 iff large_arc, '
             'theta range, Bezier approximations chained from start to end.  derivative(t,n), n=1..8, against the formal derivative on an '
             'arc with free theta/delta/centre; reversed(): same ellipse, swapped angles, flags; cropped(): flag rule and end points.',
        note='Angle domain: angles are (degree value, cos, sin) triples with the acos range axioms; cos/sin of t*delta is a free unit pair (exact at t=0,1). Comparisons are posed on sympy-cancelled rational functions and perfect-square radicands are resolved by sympy and CONFIRMED by z3 (r*r == radicand) before use. Bound: finite sets of rotations / radii / start directions; irrational cos/sin rotations outside.',
        design='3/C04'),
}

NOT_YET = 'check not built yet in this round (see DESIGN.md section 3 for the plan)'


def main():
    props = [json.loads(l) for l in open(os.path.join(HERE, 'properties.jsonl'))]
    checks = []
    na = []
    for p in props:
        pid = p['id']
        if pid in CLAIMED:
            c = CLAIMED[pid]
            checks.append({
                'property_id': pid,
                'quick_cmd': './check %s --tier quick' % pid,
                'thorough_cmd': './check %s --tier thorough' % pid,
                'evidence_file': '/verif/evidence/%s.json' % pid,
                'replay_cmd_template': './check %s --replay {path}' % pid,
                'engine': ENGINE,
                'level_claimed': {'category': 'other', 'text': c['text'], 'design_ref': c['design']},
                'level_note': c['note'],
                'technique': c.get('technique', TECH),
            })
        else:
            na.append({'property_id': pid, 'reason': NA.get(pid, NOT_YET)})
    man = {
        'version': 1,
        'setup_cmd': './bootstrap.sh',
        'hooks': {
            'guard': 'SVGPATHTOOLS_VERIF',
            'enable': 'no source hooks are needed: stubs are injected into the imported module namespaces for the duration of a symbolic run only',
            'baseline_off_cmd': 'cd /repo && /venv/bin/python -m pytest -ra -q -p no:cacheprovider --timeout=900 --continue-on-collection-errors',
            'source_commits': [],
            'add_only': True,
        },
        'engines': [{
            'name': ENGINE, 'path': '/verif/vf',
            'serves_properties': sorted(CLAIMED),
            'kind_free_text': 'own symbolic executor (re-execution DFS over decision vectors) running the unmodified /repo functions on z3-backed real/complex/bool/IEEE values; z3 5.1 decides every branch feasibility and every obligation; cvc5 cross-checks; sat models are replayed on the real library in a fresh interpreter',
        }],
        'checks': checks,
        'not_applicable': na,
        'notes': 'exit 0 = all obligations unsat (or only listed known findings); exit 1 + VIOLATION line = replayed unlisted counterexample; exit 3 = harness error (spurious model, vacuous family, crash). unknown/timeouts are inconclusive, listed in evidence and never counted as discharged.',
    }
    with open(os.path.join(HERE, 'MANIFEST.json'), 'w') as f:
        json.dump(man, f, indent=1)
    print('claimed', len(checks), 'not_applicable', len(na))


NA = {}

if __name__ == '__main__':
    main()
