#!/usr/bin/env python3
"""seed_meta.py <seeded-dir> <detected_by|MISSED> [note]: writes meta.json for a seeded mutation."""
import json, os, sys
d, det = sys.argv[1], sys.argv[2]
note = sys.argv[3] if len(sys.argv) > 3 else ''
path = os.path.join('/verif/seeded', d)
prop = d.split('-')[0]
needs = ''
np_ = os.path.join(path, 'notes.md')
if os.path.exists(np_):
    needs = open(np_).read().strip()[:1500]
json.dump({'property': prop, 'source': 'independent sub-agent working in a scratch worktree with only the property text',
           'needs_to_manifest': needs,
           'confirmed_by': 'tools/verify_mut.sh: demo.py exits 0 on the clean tree and 1 with patch.diff applied; existing suite unchanged (92 passed on the repaired tree; 91 passed + 1 pre-existing failure before fix 601cb80)',
           'check_run': 'tools/try_seeded.sh %s  (git apply; ./check %s --tier quick; git checkout)' % (d, prop),
           'result': det, 'note': note}, open(os.path.join(path, 'meta.json'), 'w'), indent=1)
