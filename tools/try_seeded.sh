#!/bin/sh
# try_seeded.sh <seeded-dir-name> [check args]: apply seeded patch to /repo, run the check, undo.
D=/verif/seeded/$1; ID=$(echo $1 | cut -d- -f1); shift
git -C /repo apply $D/patch.diff || exit 2
cd /verif && ./check $ID "$@" > /tmp/try_$ID.log 2>&1; E=$?
git -C /repo checkout -- .
grep -E "^(VIOLATION|KNOWN-FINDING|HARNESS-ERROR)" /tmp/try_$ID.log | cut -c1-300 | head -8
echo "exit=$E"
