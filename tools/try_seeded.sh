#!/bin/sh
# try_seeded.sh <seeded-dir-name> [check args]: apply the seeded patch to a scratch worktree of /repo
# (so that /repo itself stays untouched while other runs use it), run the check against it
# (VERIF_REPO), remove the worktree.  Equivalent to: git -C /repo apply; ./check; git -C /repo checkout -- .
N=$1; D=/verif/seeded/$N; ID=$(echo $N | cut -d- -f1); shift
W=/tmp/sr/$N; rm -rf $W; mkdir -p /tmp/sr
git -C /repo worktree add -q --detach $W HEAD || exit 2
git -C $W apply $D/patch.diff || { git -C /repo worktree remove --force $W; exit 2; }
cd /verif && VERIF_REPO=$W VERIF_EVIDENCE_DIR=/tmp/sr/ev_$N VERIF_REPLAY_DIR=/tmp/sr/replays_$N ./check $ID "$@" > /tmp/try_$N.log 2>&1; E=$?
git -C /repo worktree remove --force $W
grep -E "^(VIOLATION|KNOWN-FINDING|HARNESS-ERROR)" /tmp/try_$N.log | cut -c1-300 | head -8
echo "exit=$E"
