# replay of a solver counterexample against the real library (exit 1 = reproduces)
import sys, warnings
sys.path.insert(0, '/repo')
warnings.simplefilter('ignore')
import numpy as np
from svgpathtools import *
import svgpathtools
def close(a, b, rel=1e-7, ab=1e-9):
    return abs(a - b) <= ab + rel * max(abs(a), abs(b))
def REPRODUCED(msg):
    print('REPRODUCED:', msg); sys.exit(1)
def NOT_REPRODUCED(msg=''):
    print('not reproduced', msg); sys.exit(0)


import tempfile, os
from svgpathtools import Document
loaded = True; in_group = True
src = '<svg xmlns="http://www.w3.org/2000/svg"><g id="g0"><path d="M0,0 L1,1"/></g></svg>'
doc = Document.from_svg_string(src) if loaded else Document()
before = len(doc.paths())
p = Path(Line(2+0j, 3+1j), Line(3+1j, 5+5j))
grp = doc.add_group({'id': 'new'}) if in_group else None
doc.add_path(p, {'stroke': 'blue'}, group=grp)
now = doc.paths()
if len(now) != before + 1 or not any(q == p for q in now):
    REPRODUCED('after add_path the Document (loaded=%r, group=%r) returns %d paths (had %d): the added path is not among them' % (loaded, in_group, len(now), before))
fd, fn = tempfile.mkstemp(suffix='.svg'); os.close(fd)
try:
    doc.save(fn); again = Document(fn).paths()
finally:
    os.remove(fn)
if len(again) != before + 1 or not any(q == p for q in again): REPRODUCED('after save/reload the added path is missing: %d paths' % len(again))

NOT_REPRODUCED()
