# replay of a solver counterexample against the real library (exit 1 = reproduces)
import sys, warnings
sys.path.insert(0, '/repo')
warnings.simplefilter('ignore')
import numpy as np
from svgpathtools import *
import svgpathtools
def close(a, b, rel=1e-7, ab=1e-9):
    return abs(a - b) <= ab + rel * max(abs(a), abs(b))
def REPRODUCED(msg):
    print('REPRODUCED:', msg); sys.exit(1)
def NOT_REPRODUCED(msg=''):
    print('not reproduced', msg); sys.exit(0)


import tempfile, os
from svgpathtools import wsvg, svg2paths2, Document
from svgpathtools.svg_io_sax import SaxDocument
paths = [Path(CubicBezier((-9-9j), (-9-9j), (-9+0j), 1j), Line((-9-9j), (-9+1j)))]
attrs = [{'stroke': 'red', 'fill': 'none', 'xml:space': 'preserve'}]; svg_attrs = {'width': '300px', 'height': '200px', 'viewBox': '0 0 30 20'}; writer = 'Document'; reader = 'Document'
fd, fn = tempfile.mkstemp(suffix='.svg'); os.close(fd)
try:
    if writer == 'wsvg':
        wsvg(paths, attributes=[attrs[i % len(attrs)] for i in range(len(paths))], svg_attributes=dict(svg_attrs), viewbox='0 0 30 20', filename=fn)
    elif writer == 'Document':
        doc = Document()
        for i, p in enumerate(paths): doc.add_path(p, attrs[i % len(attrs)])
        doc.save(fn)
    else:
        wsvg(paths, attributes=[attrs[i % len(attrs)] for i in range(len(paths))], svg_attributes=dict(svg_attrs), viewbox='0 0 30 20', filename=fn)
        sd = SaxDocument(fn); sd.save(fn)
    got_attrs = None; got_svg = None
    if reader == 'svg2paths2': out, got_attrs, got_svg = svg2paths2(fn)
    elif reader == 'Document': out = Document(fn).paths(); got_attrs = [dict(p.element.attrib) for p in out]
    else:
        sd_ = SaxDocument(fn); out = sd_.flatten_all_paths()
        if len(sd_.tree) == len(out): got_attrs = [dict(e) for e in sd_.tree]
        got_svg = dict(sd_.root_values)
finally:
    os.remove(fn)
if len(out) != len(paths): REPRODUCED('%s -> %s: %d paths written, %d read back' % (writer, reader, len(paths), len(out)))
for p, q in zip(paths, out):
    same = len(p) == len(q) and all(type(a) is type(b) and all(close(x, y) for x, y in zip((a.bpoints() if not isinstance(a, Arc) else (a.start, a.radius, a.rotation, a.end)),
                                                                                      (b.bpoints() if not isinstance(b, Arc) else (b.start, b.radius, b.rotation, b.end)))) for a, b in zip(p, q))
    if not same: REPRODUCED('%s -> %s: %r read back as %r' % (writer, reader, p, q))
if got_attrs is not None and writer != 'SaxDocument':
    for a, g in zip(attrs, got_attrs):
        for k, v in a.items():
            gv = g.get(k, g.get(k.replace('xml:', '{http://www.w3.org/XML/1998/namespace}')))
            if gv != v: REPRODUCED('attribute %r=%r came back as %r' % (k, v, gv))
if got_svg is not None and writer == 'wsvg':
    for k, v in svg_attrs.items():
        if got_svg.get(k) != v: REPRODUCED('svg attribute %r=%r came back as %r' % (k, v, got_svg.get(k)))

NOT_REPRODUCED()
