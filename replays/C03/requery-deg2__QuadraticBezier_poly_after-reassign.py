# replay of a solver counterexample against the real library (exit 1 = reproduces)
import sys, warnings
sys.path.insert(0, '/tmp/sr/C03-m5')
warnings.simplefilter('ignore')
import numpy as np
from svgpathtools import *
import svgpathtools
def close(a, b, rel=1e-7, ab=1e-9):
    return abs(a - b) <= ab + rel * max(abs(a), abs(b))
def REPRODUCED(msg):
    print('REPRODUCED:', msg); sys.exit(1)
def NOT_REPRODUCED(msg=''):
    print('not reproduced', msg); sys.exit(0)


from math import comb
from fractions import Fraction as F
def cF(z): return (F(z.real), F(z.imag))
def bernF(ps, t):
    n = len(ps)-1; t = F(t); x = F(0); y = F(0)
    for i,p in enumerate(ps):
        w = comb(n,i)*(1-t)**(n-i)*t**i
        x += w*F(p.real); y += w*F(p.imag)
    return complex(float(x), float(y))
def derivF(ps, t, k):
    n = len(ps)-1; t = F(t)
    cs = []
    for j in range(n+1):
        cx = F(0); cy = F(0)
        for i in range(j+1):
            w = comb(n,j)*comb(j,i)*(-1)**(i+j)
            cx += w*F(ps[i].real); cy += w*F(ps[i].imag)
        cs.append((cx,cy))
    for _ in range(k):
        cs = [(c[0]*j, c[1]*j) for j,c in enumerate(cs)][1:]
    x = sum((c[0]*t**j for j,c in enumerate(cs)), F(0)); y = sum((c[1]*t**j for j,c in enumerate(cs)), F(0))
    return complex(float(x), float(y))

from svgpathtools.path import bez2poly, poly2bez
import numpy as np
ps = [-1j, 0j, 0j]
qs = [-1j, -1j, 0j]
t = -1.0
seg = QuadraticBezier(*ps)
for c in [seg.point(t), seg.poly()(t), seg.points([t,0,1])[0], np.poly1d(bez2poly(seg))(t), seg.derivative(t,1), seg.derivative(t,2)]:
    pass  # first round of queries
for i, (nm, q) in enumerate(zip(['start', 'control', 'end'], qs)):
    if i in [1]: setattr(seg, nm, q)
got = complex(seg.poly()(t)); want = complex(bernF(qs, t))
if abs(got - want) > 1e-9 * max(1.0, max(abs(p) for p in qs)) * max(1.0, abs(t))**2:
    REPRODUCED('QuadraticBezier.poly after reassigning control points: got %r, oracle %r' % (got, want))

NOT_REPRODUCED()
