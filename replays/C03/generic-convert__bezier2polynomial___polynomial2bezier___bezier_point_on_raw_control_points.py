# replay of a solver counterexample against the real library (exit 1 = reproduces)
import sys, warnings
sys.path.insert(0, '/tmp/sr/C03-m6')
warnings.simplefilter('ignore')
import numpy as np
from svgpathtools import *
import svgpathtools
def close(a, b, rel=1e-7, ab=1e-9):
    return abs(a - b) <= ab + rel * max(abs(a), abs(b))
def REPRODUCED(msg):
    print('REPRODUCED:', msg); sys.exit(1)
def NOT_REPRODUCED(msg=''):
    print('not reproduced', msg); sys.exit(0)


from math import comb
from fractions import Fraction as F
def cF(z): return (F(z.real), F(z.imag))
def bernF(ps, t):
    n = len(ps)-1; t = F(t); x = F(0); y = F(0)
    for i,p in enumerate(ps):
        w = comb(n,i)*(1-t)**(n-i)*t**i
        x += w*F(p.real); y += w*F(p.imag)
    return complex(float(x), float(y))
def derivF(ps, t, k):
    n = len(ps)-1; t = F(t)
    cs = []
    for j in range(n+1):
        cx = F(0); cy = F(0)
        for i in range(j+1):
            w = comb(n,j)*comb(j,i)*(-1)**(i+j)
            cx += w*F(ps[i].real); cy += w*F(ps[i].imag)
        cs.append((cx,cy))
    for _ in range(k):
        cs = [(c[0]*j, c[1]*j) for j,c in enumerate(cs)][1:]
    x = sum((c[0]*t**j for j,c in enumerate(cs)), F(0)); y = sum((c[1]*t**j for j,c in enumerate(cs)), F(0))
    return complex(float(x), float(y))

from svgpathtools.bezier import bezier2polynomial, polynomial2bezier, bezier_point
import numpy as np
ps = [0j, (-0.25+0.25j), (-0.75+0j)]; t = 0.0
scale = 1 + max(abs(p) for p in ps)
co = bezier2polynomial(ps)
for form in (list(co), tuple(co), np.array(list(co))):
    back = polynomial2bezier(form)
    if len(back) != len(ps) or any(abs(a - b) > 1e-9 * scale for a, b in zip(back, ps)):
        REPRODUCED('polynomial2bezier(%s(bezier2polynomial(%r))) = %r' % (type(form).__name__, ps, back))
if abs(np.poly1d(list(co))(t) - bernF(ps, t)) > 1e-9 * scale * max(1, abs(t)) ** len(ps): REPRODUCED('bezier2polynomial(%r) evaluated at %r is %r, the curve point is %r' % (ps, t, np.poly1d(list(co))(t), bernF(ps, t)))
if abs(bezier_point(ps, t) - bernF(ps, t)) > 1e-9 * scale * max(1, abs(t)) ** len(ps): REPRODUCED('bezier_point(%r, %r) = %r, the curve point is %r' % (ps, t, bezier_point(ps, t), bernF(ps, t)))

NOT_REPRODUCED()
