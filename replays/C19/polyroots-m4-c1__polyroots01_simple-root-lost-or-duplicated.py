# replay of a solver counterexample against the real library (exit 1 = reproduces)
import sys, warnings
sys.path.insert(0, '/tmp/sr/C19-m5')
warnings.simplefilter('ignore')
import numpy as np
from svgpathtools import *
import svgpathtools
def close(a, b, rel=1e-7, ab=1e-9):
    return abs(a - b) <= ab + rel * max(abs(a), abs(b))
def REPRODUCED(msg):
    print('REPRODUCED:', msg); sys.exit(1)
def NOT_REPRODUCED(msg=''):
    print('not reproduced', msg); sys.exit(0)


from svgpathtools.polytools import polyroots01, polyroots
roots = [0.001j, (1.0000033366666667+0j), (1.0000016683333333+0j), (0.9999949950500495+0j)]
# complex roots must come in conjugate pairs for a real polynomial: add the conjugates
full = []
for z in roots:
    full.append(z)
    if abs(z.imag) > 0: full.append(z.conjugate())
p = np.real_if_close(np.poly(full))
out = polyroots01(p)
reals = sorted(z.real for z in roots if z.imag == 0)
for r in reals:
    if not (0 <= r <= 1): continue
    if any(abs(r - o) < 0.001 for o in reals if o is not r and 0 <= o <= 1): continue
    n = sum(1 for o in out if abs(o - r) < 1e-6)
    if n != 1:
        REPRODUCED('polyroots01(np.poly(%r)) = %r: simple root %r occurs %d times' % (full, out, r, n))
# second level: numpy documents no order for np.roots; inject exactly the order of the solver model
import svgpathtools.polytools as PT
_real_roots = np.roots
np.roots = lambda p: np.array(roots)
try:
    out = polyroots01([1.0]*(len(roots)+1))
finally:
    np.roots = _real_roots
for r in reals:
    if not (0 <= r <= 1): continue
    if any(abs(r - o) < 0.001 for o in reals if o is not r and 0 <= o <= 1): continue
    n = sum(1 for o in out if abs(o - r) < 1e-6)
    if n != 1:
        REPRODUCED('with np.roots returning %r (order injection) polyroots01 = %r: simple root %r occurs %d times' % (roots, out, r, n))

NOT_REPRODUCED()
