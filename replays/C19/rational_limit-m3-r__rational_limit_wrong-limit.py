# replay of a solver counterexample against the real library (exit 1 = reproduces)
import sys, warnings
sys.path.insert(0, '/tmp/sr/C19-m6')
warnings.simplefilter('ignore')
import numpy as np
from svgpathtools import *
import svgpathtools
def close(a, b, rel=1e-7, ab=1e-9):
    return abs(a - b) <= ab + rel * max(abs(a), abs(b))
def REPRODUCED(msg):
    print('REPRODUCED:', msg); sys.exit(1)
def NOT_REPRODUCED(msg=''):
    print('not reproduced', msg); sys.exit(0)


from svgpathtools.polytools import rational_limit
from fractions import Fraction as F
fc = [-1.0, 0.0, 1.0]; gc = [-1.0, 0.0, -1.0]; t0 = 0.0; m = 3
f1 = np.poly1d(fc); g1 = np.poly1d(gc); lin = np.poly1d([1, -t0])
f, g = f1, g1
for _ in range(m):
    f = f*lin; g = g*lin
g1v = g1(t0)
if abs(g1v) > 1e-300:
    want = f1(t0)/g1v
    try:
        got = rational_limit(f, g, t0)
    except Exception as e:
        REPRODUCED('rational_limit raised %r but the limit exists: %r' % (e, want))
    if abs(got - want) > 1e-6*max(1.0, abs(want)):
        REPRODUCED('rational_limit = %r, true limit %r' % (got, want))

NOT_REPRODUCED()
