# replay of a solver counterexample against the real library (exit 1 = reproduces)
import sys, warnings
sys.path.insert(0, '/repo')
warnings.simplefilter('ignore')
import numpy as np
from svgpathtools import *
import svgpathtools
def close(a, b, rel=1e-7, ab=1e-9):
    return abs(a - b) <= ab + rel * max(abs(a), abs(b))
def REPRODUCED(msg):
    print('REPRODUCED:', msg); sys.exit(1)
def NOT_REPRODUCED(msg=''):
    print('not reproduced', msg); sys.exit(0)


from math import comb
from fractions import Fraction as F
def cF(z): return (F(z.real), F(z.imag))
def bernF(ps, t):
    n = len(ps)-1; t = F(t); x = F(0); y = F(0)
    for i,p in enumerate(ps):
        w = comb(n,i)*(1-t)**(n-i)*t**i
        x += w*F(p.real); y += w*F(p.imag)
    return complex(float(x), float(y))
def derivF(ps, t, k):
    n = len(ps)-1; t = F(t)
    cs = []
    for j in range(n+1):
        cx = F(0); cy = F(0)
        for i in range(j+1):
            w = comb(n,j)*comb(j,i)*(-1)**(i+j)
            cx += w*F(ps[i].real); cy += w*F(ps[i].imag)
        cs.append((cx,cy))
    for _ in range(k):
        cs = [(c[0]*j, c[1]*j) for j,c in enumerate(cs)][1:]
    x = sum((c[0]*t**j for j,c in enumerate(cs)), F(0)); y = sum((c[1]*t**j for j,c in enumerate(cs)), F(0))
    return complex(float(x), float(y))

from svgpathtools.bezier import *
ps = [(-1-1j), 0j, 0j, (-0.125+0j), 0.5j]; t = 0.0; u = 0.0; deg = 4; name = 'bezier2polynomial.std_order[0]'
def pcF(ps):
    n = len(ps)-1; out = []
    for j in range(n+1):
        c = 0
        for i in range(j+1):
            c += ps[i]*(comb(n,j)*comb(j,i)*(-1)**(i+j))
        out.append(c)
    return out
tol = 1e-8*max(1.0, max(abs(p) for p in ps))*max(1.0,abs(t),abs(u))**deg
bad = []
def chk(nm, got, want):
    if abs(complex(got)-complex(want)) > tol: bad.append((nm, got, want))
chk('bezier_point', bezier_point(ps, t), bernF(ps, t))
co = bezier2polynomial(ps); cr = bezier2polynomial(ps, numpy_ordering=False); oc = pcF(ps)
for j in range(deg+1):
    chk('bezier2polynomial.std_order', cr[j], oc[j]); chk('bezier2polynomial.np_order', co[deg-j], oc[j])
if deg > 0:
    chk('bezier2polynomial.eval', np.poly1d(list(co))(u), bernF(ps, u))
    chk('bezier2polynomial.poly1d', bezier2polynomial(ps, return_poly1d=True)(u), bernF(ps, u))
    l, r = split_bezier(ps, t)
    chk('split.left', bernF(l, u), bernF(ps, u*t)); chk('split.right', bernF(r, u), bernF(ps, t+u*(1-t)))
    chk('split.meet', l[-1], r[0]); chk('split.meet=point', l[-1], bernF(ps, t))
    hl, hr = halve_bezier(ps)
    chk('halve.left.curve', bernF(hl, u), bernF(ps, u/2)); chk('halve.right.curve', bernF(hr, u), bernF(ps, (1+u)/2))
if 1 <= deg <= 3:
    back = polynomial2bezier(list(co))
    for j in range(deg+1): chk('polynomial2bezier.inv', back[j], ps[j])
    fw = bezier2polynomial(polynomial2bezier(ps))
    for j in range(deg+1): chk('bezier2polynomial.inv', fw[j], ps[j])
if bad:
    REPRODUCED('degree %d: %s' % (deg, bad[:2]))

NOT_REPRODUCED()
