# replay of a solver counterexample against the real library (exit 1 = reproduces)
import sys, warnings
sys.path.insert(0, '/tmp/sr/C01-m5')
warnings.simplefilter('ignore')
import numpy as np
from svgpathtools import *
import svgpathtools
def close(a, b, rel=1e-7, ab=1e-9):
    return abs(a - b) <= ab + rel * max(abs(a), abs(b))
def REPRODUCED(msg):
    print('REPRODUCED:', msg); sys.exit(1)
def NOT_REPRODUCED(msg=''):
    print('not reproduced', msg); sys.exit(0)


p = Path(CubicBezier((-20+1j), (-20+1j), (-40-40j), (-20+1j)), QuadraticBezier((-20+1j), (-40+0j), (-20+1j)), QuadraticBezier((-20+1j), 2j, (-20+1j)))
opts = dict(useSandT=True, use_closed_attrib=True, rel=False)
d = p.d(**opts)
try:
    q = parse_path(d)
except Exception as e:
    REPRODUCED('d(%r) = %r does not parse: %r' % (opts, d, e))
def same(a, b):
    if type(a) is not type(b): return False
    if isinstance(a, Arc):
        return (a.large_arc, a.sweep) == (b.large_arc, b.sweep) and close(a.start, b.start) and close(a.end, b.end) \
            and close(a.radius, b.radius, rel=1e-9) and close(a.rotation, b.rotation)
    return all(close(x, y) for x, y in zip(a.bpoints(), b.bpoints()))
if len(p) != len(q) or not all(same(a, b) for a, b in zip(p, q)):
    REPRODUCED('d(%r) = %r parses to\n  %r\ninstead of\n  %r' % (opts, d, q, p))

NOT_REPRODUCED()
