# replay of a solver counterexample against the real library (exit 1 = reproduces)
import sys, warnings
sys.path.insert(0, '/tmp/sr/C04-m5')
warnings.simplefilter('ignore')
import numpy as np
from svgpathtools import *
import svgpathtools
def close(a, b, rel=1e-7, ab=1e-9):
    return abs(a - b) <= ab + rel * max(abs(a), abs(b))
def REPRODUCED(msg):
    print('REPRODUCED:', msg); sys.exit(1)
def NOT_REPRODUCED(msg=''):
    print('not reproduced', msg); sys.exit(0)


import math, cmath
a = Arc((-6.799995422363281-7.1999969482421875j), (2+1j), 0.0, False, True, (-9.200004577636719-8.800003051757812j))
st, en, rot, fa, fs = a.start, a.end, a.rotation, a.large_arc, a.sweep
rx0, ry0 = (2.0, 1.0)
# independent F.6.5 / F.6.6
phi = math.radians(rot); c, s = math.cos(phi), math.sin(phi)
dx, dy = (st.real - en.real) / 2, (st.imag - en.imag) / 2
x1p, y1p = c * dx + s * dy, -s * dx + c * dy
rx, ry = abs(rx0), abs(ry0)
lam = x1p ** 2 / rx ** 2 + y1p ** 2 / ry ** 2
if lam > 1: rx, ry = math.sqrt(lam) * rx, math.sqrt(lam) * ry
num = rx ** 2 * ry ** 2 - rx ** 2 * y1p ** 2 - ry ** 2 * x1p ** 2
co = math.sqrt(max(0.0, num / (rx ** 2 * y1p ** 2 + ry ** 2 * x1p ** 2)))
if fa == fs: co = -co
cxp, cyp = co * rx * y1p / ry, -co * ry * x1p / rx
ctr = complex(c * cxp - s * cyp + (st.real + en.real) / 2, s * cxp + c * cyp + (st.imag + en.imag) / 2)
scale = 1 + abs(st) + abs(en) + rx + ry
bad = []
if any(v != v for v in (a.center.real, a.center.imag, a.theta, a.delta, a.point(0.5).real)): bad.append(('not-a-number', a.center, a.theta, a.delta, a.point(0.5)))
if abs(a.radius - complex(rx, ry)) > 1e-7 * scale: bad.append(('radius', a.radius, complex(rx, ry)))
if abs(a.center - ctr) > 1e-5 * scale and abs(lam - 1) > 1e-6: bad.append(('center', a.center, ctr))
if abs(a.point(0) - st) > 1e-5 * scale or abs(a.point(1) - en) > 1e-5 * scale: bad.append(('end points', a.point(0), a.point(1)))
if (a.delta > 0) != bool(fs) and abs(a.delta) > 1e-9: bad.append(('sweep direction', a.delta, fs))
if (abs(a.delta) > 180 + 1e-6) != bool(fa) and abs(abs(a.delta) - 180) > 1e-4: bad.append(('large_arc', a.delta, fa))
if not -180 - 1e-9 <= a.theta <= 180 + 1e-9: bad.append(('theta range', a.theta))
for t in (0.13, 0.5, 0.77):
    z = (a.point(t) - a.center) * cmath.exp(-1j * phi)
    if abs(z.real ** 2 / a.radius.real ** 2 + z.imag ** 2 / a.radius.imag ** 2 - 1) > 1e-6: bad.append(('not on ellipse', t, a.point(t)))
    for n in range(1, 9):
        ang = math.radians(a.theta + t * a.delta); k = math.radians(a.delta) ** n
        cs = [math.cos(ang), -math.sin(ang), -math.cos(ang), math.sin(ang)][n % 4]
        sn = [math.sin(ang), math.cos(ang), -math.sin(ang), -math.cos(ang)][n % 4]
        want = k * complex(a.radius.real * c * cs - a.radius.imag * s * sn, a.radius.real * s * cs + a.radius.imag * c * sn)
        if abs(a.derivative(t, n) - want) > 1e-6 * (1 + abs(want)): bad.append(('derivative order %d' % n, a.derivative(t, n), want))
for m_ in (1, 2, 3):
    for pieces in (list(a.as_cubic_curves(m_)), list(a.as_quad_curves(m_))):
        if abs(pieces[0].start - st) > 1e-9 or abs(pieces[-1].end - en) > 1e-9 or any(abs(p.end - q.start) > 1e-9 for p, q in zip(pieces, pieces[1:])):
            bad.append(('bezier approximation end points', m_))
if bad: REPRODUCED('%r: %r' % (a, bad[:3]))

NOT_REPRODUCED()
