# replay of a solver counterexample against the real library (exit 1 = reproduces)
import sys, warnings
sys.path.insert(0, '/tmp/sr/C08-m6')
warnings.simplefilter('ignore')
import numpy as np
from svgpathtools import *
import svgpathtools
def close(a, b, rel=1e-7, ab=1e-9):
    return abs(a - b) <= ab + rel * max(abs(a), abs(b))
def REPRODUCED(msg):
    print('REPRODUCED:', msg); sys.exit(1)
def NOT_REPRODUCED(msg=''):
    print('not reproduced', msg); sys.exit(0)


import math
rot, rx, ry, cx, cy, theta, delta = (-36.86989764584402, 2.5, 2.5, -1e-11, -5.92063492063492e-11, -180.0, 355.0)
phi = math.radians(rot)
def pt(a):
    a = math.radians(a)
    x, y = rx * math.cos(a), ry * math.sin(a)
    return complex(cx + math.cos(phi) * x - math.sin(phi) * y, cy + math.sin(phi) * x + math.cos(phi) * y)
arc = Arc(pt(theta), complex(rx, ry), rot, abs(delta) > 180, delta > 0, pt(theta + delta))
if abs(arc.theta - theta) > 1e-6 and abs(abs(arc.theta - theta) - 360) > 1e-6 or abs(arc.delta - delta) > 1e-6:
    print('the constructor did not reproduce theta/delta', arc.theta, arc.delta); raise SystemExit(0)
xmin, xmax, ymin, ymax = arc.bbox()
N = 20000
pts = [pt(theta + delta * i / N) for i in range(N + 1)]          # independent of Arc.point
xs, ys = [p.real for p in pts], [p.imag for p in pts]
tol = 1e-6 * (1 + rx + ry)
out = [n for n, v in (('xmin', xmin - min(xs)), ('xmax', max(xs) - xmax), ('ymin', ymin - min(ys)), ('ymax', max(ys) - ymax)) if v > tol]
if out:
    REPRODUCED('Arc.bbox() of %r = %r does not contain the arc (%s): the arc spans x in [%r, %r], y in [%r, %r]' % (arc, (xmin, xmax, ymin, ymax), ','.join(out), min(xs), max(xs), min(ys), max(ys)))
loose = [n for n, v in (('xmin', min(xs) - xmin), ('xmax', xmax - max(xs)), ('ymin', min(ys) - ymin), ('ymax', ymax - max(ys))) if v > 1e-4 * (1 + rx + ry)]
if loose:
    REPRODUCED('Arc.bbox() of %r = %r is not tight (%s): the arc spans x in [%r, %r], y in [%r, %r]' % (arc, (xmin, xmax, ymin, ymax), ','.join(loose), min(xs), max(xs), min(ys), max(ys)))

NOT_REPRODUCED()
