# replay of a solver counterexample against the real library (exit 1 = reproduces)
import sys, warnings
sys.path.insert(0, '/tmp/sr/C12-m6')
warnings.simplefilter('ignore')
import numpy as np
from svgpathtools import *
import svgpathtools
def close(a, b, rel=1e-7, ab=1e-9):
    return abs(a - b) <= ab + rel * max(abs(a), abs(b))
def REPRODUCED(msg):
    print('REPRODUCED:', msg); sys.exit(1)
def NOT_REPRODUCED(msg=''):
    print('not reproduced', msg); sys.exit(0)


from math import comb
from fractions import Fraction as F
def cF(z): return (F(z.real), F(z.imag))
def bernF(ps, t):
    n = len(ps)-1; t = F(t); x = F(0); y = F(0)
    for i,p in enumerate(ps):
        w = comb(n,i)*(1-t)**(n-i)*t**i
        x += w*F(p.real); y += w*F(p.imag)
    return complex(float(x), float(y))
def derivF(ps, t, k):
    n = len(ps)-1; t = F(t)
    cs = []
    for j in range(n+1):
        cx = F(0); cy = F(0)
        for i in range(j+1):
            w = comb(n,j)*comb(j,i)*(-1)**(i+j)
            cx += w*F(ps[i].real); cy += w*F(ps[i].imag)
        cs.append((cx,cy))
    for _ in range(k):
        cs = [(c[0]*j, c[1]*j) for j,c in enumerate(cs)][1:]
    x = sum((c[0]*t**j for j,c in enumerate(cs)), F(0)); y = sum((c[1]*t**j for j,c in enumerate(cs)), F(0))
    return complex(float(x), float(y))

from svgpathtools.bezier import bezier_real_minmax, bezier_bounding_box
a = [0.0, 40.0, -30.0, 10.0]
deg = len(a) - 1
seg = bpoints2bezier([complex(x, 0.25 * x * x - x) for x in a]) if deg >= 1 else None
xmin, xmax = seg.bbox()[:2]
eps = 1e-9 * (1 + max(abs(x) for x in a))
from fractions import Fraction as F
from math import comb
def B(t):
    t = F(t); return float(sum(comb(deg, i) * (1 - t) ** (deg - i) * t ** i * F(x) for i, x in enumerate(a)))
ts = [F(i, 4000) for i in range(4001)] + [F(0.2).limit_denominator(10**9)]
vals = [B(t) for t in ts if 0 <= t <= 1]
if min(vals) < xmin - eps or max(vals) > xmax + eps:
    REPRODUCED('bbox x-range %r of %r does not contain the curve: x ranges over [%r, %r]' % ((xmin, xmax), seg, min(vals), max(vals)))
if deg == 3:
    mn, mx = bezier_real_minmax(a)
    if min(vals) < mn - eps or max(vals) > mx + eps or abs(mn - min(vals)) > 1e-5 * (1 + abs(mn)) or abs(mx - max(vals)) > 1e-5 * (1 + abs(mx)):
        REPRODUCED('bezier_real_minmax(%r) = %r but the polynomial ranges over [%r, %r]' % (a, (mn, mx), min(vals), max(vals)))
if abs(xmin - min(vals)) > 1e-5 * (1 + abs(xmin)) or abs(xmax - max(vals)) > 1e-5 * (1 + abs(xmax)):
    REPRODUCED('bbox x-range %r is not tight: curve x ranges over [%r, %r]' % ((xmin, xmax), min(vals), max(vals)))

NOT_REPRODUCED()
