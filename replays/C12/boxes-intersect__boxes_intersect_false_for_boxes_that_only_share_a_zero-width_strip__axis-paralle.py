# replay of a solver counterexample against the real library (exit 1 = reproduces)
import sys, warnings
sys.path.insert(0, '/repo')
warnings.simplefilter('ignore')
import numpy as np
from svgpathtools import *
import svgpathtools
def close(a, b, rel=1e-7, ab=1e-9):
    return abs(a - b) <= ab + rel * max(abs(a), abs(b))
def REPRODUCED(msg):
    print('REPRODUCED:', msg); sys.exit(1)
def NOT_REPRODUCED(msg=''):
    print('not reproduced', msg); sys.exit(0)


b1 = CubicBezier(0j, 3+0j, 6+0j, 10+0j); b2 = CubicBezier(5-1j, 5+2j, 5+5j, 5+9j)
r = b1.intersect(b2)
if not any(abs(b1.point(t1) - (5+0j)) < 1e-3 for t1, t2 in r):
    REPRODUCED('%r and %r cross at (5,0) but intersect() returned %r' % (b1, b2, r))

NOT_REPRODUCED()
