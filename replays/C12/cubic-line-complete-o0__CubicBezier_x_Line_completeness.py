# replay of a solver counterexample against the real library (exit 1 = reproduces)
import sys, warnings
sys.path.insert(0, '/tmp/sr/C12-m4')
warnings.simplefilter('ignore')
import numpy as np
from svgpathtools import *
import svgpathtools
def close(a, b, rel=1e-7, ab=1e-9):
    return abs(a - b) <= ab + rel * max(abs(a), abs(b))
def REPRODUCED(msg):
    print('REPRODUCED:', msg); sys.exit(1)
def NOT_REPRODUCED(msg=''):
    print('not reproduced', msg); sys.exit(0)


from math import comb
from fractions import Fraction as F
def cF(z): return (F(z.real), F(z.imag))
def bernF(ps, t):
    n = len(ps)-1; t = F(t); x = F(0); y = F(0)
    for i,p in enumerate(ps):
        w = comb(n,i)*(1-t)**(n-i)*t**i
        x += w*F(p.real); y += w*F(p.imag)
    return complex(float(x), float(y))
def derivF(ps, t, k):
    n = len(ps)-1; t = F(t)
    cs = []
    for j in range(n+1):
        cx = F(0); cy = F(0)
        for i in range(j+1):
            w = comb(n,j)*comb(j,i)*(-1)**(i+j)
            cx += w*F(ps[i].real); cy += w*F(ps[i].imag)
        cs.append((cx,cy))
    for _ in range(k):
        cs = [(c[0]*j, c[1]*j) for j,c in enumerate(cs)][1:]
    x = sum((c[0]*t**j for j,c in enumerate(cs)), F(0)); y = sum((c[1]*t**j for j,c in enumerate(cs)), F(0))
    return complex(float(x), float(y))

ps = [-1j, 0j, 0j, (-1+1j)]; ln = (0j, (-1+0j))
bez = bpoints2bezier(ps); line = Line(*ln)
r1 = bez.intersect(line); r2 = line.intersect(bez)
scale = 1 + max(abs(p) for p in ps) + abs(ln[0]) + abs(ln[1])
for (tb, tl) in r1:
    if not (0 <= tb <= 1 and 0 <= tl <= 1): REPRODUCED('out of range %r' % (r1,))
    if abs(bez.point(tb) - line.point(tl)) > 1e-5 * scale: REPRODUCED('%r.intersect(%r) reports %r but the points are %r / %r' % (bez, line, (tb, tl), bez.point(tb), line.point(tl)))
if sorted((round(x, 7), round(y, 7)) for x, y in r1) != sorted((round(y, 7), round(x, 7)) for x, y in r2):
    REPRODUCED('swap asymmetry: %r vs %r' % (r1, r2))
# completeness by dense sign changes of the signed distance to the line
d = ln[1] - ln[0]
def side(t):
    p = bez.point(t) - ln[0]; return (p.real * d.imag - p.imag * d.real)
N = 20000; cnt = []
prev, iprev = side(0.0), 0
for i in range(1, N + 1):
    cur = side(i / N)
    if cur == 0: continue            # a sample exactly on the line: the sign change is seen across it
    if prev * cur < 0:
        t = (i + iprev) / 2 / N; p = bez.point(t) - ln[0]
        lam = (p.real * d.real + p.imag * d.imag) / abs(d) ** 2
        if 1e-3 < lam < 1 - 1e-3 and 1e-3 < t < 1 - 1e-3: cnt.append((t, lam))
    prev, iprev = cur, i
for (t, lam) in cnt:
    hits = [p for p in r1 if abs(p[0] - t) < 1e-3 and abs(p[1] - lam) < 1e-3]
    if len(hits) != 1: REPRODUCED('crossing near (t,line_t)=(%r,%r) reported %d times: %r' % (t, lam, len(hits), r1))

NOT_REPRODUCED()
