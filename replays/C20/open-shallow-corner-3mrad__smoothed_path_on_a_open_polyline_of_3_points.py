# replay of a solver counterexample against the real library (exit 1 = reproduces)
import sys, warnings
sys.path.insert(0, '/tmp/sr/C20-m6')
warnings.simplefilter('ignore')
import numpy as np
from svgpathtools import *
import svgpathtools
def close(a, b, rel=1e-7, ab=1e-9):
    return abs(a - b) <= ab + rel * max(abs(a), abs(b))
def REPRODUCED(msg):
    print('REPRODUCED:', msg); sys.exit(1)
def NOT_REPRODUCED(msg=''):
    print('not reproduced', msg); sys.exit(0)


from svgpathtools.smoothing import smoothed_path, kinks
pts = [0j, (4+0j), (8-0.012j)]; closed = False; mj = 3.0; tg = 1.0
segs = [Line(pts[i], pts[i + 1]) for i in range(len(pts) - 1)]
if closed: segs.append(Line(pts[-1], pts[0]))
p = Path(*segs)
try:
    q = smoothed_path(p, maxjointsize=mj, tightness=tg)
except Exception as e:
    REPRODUCED('smoothed_path raised %r for %r' % (e, p))
if not q.iscontinuous(): REPRODUCED('result not continuous: %r' % q)
if closed and not q.isclosed(): REPRODUCED('closed input, open output: %r' % q)
if not closed and (abs(q.start - p.start) > 1e-9 or abs(q.end - p.end) > 1e-9): REPRODUCED('end points moved')
n = len(q)
for i in range(n if closed else n - 1):
    a, b = q[i], q[(i + 1) % n]
    da = (a.end - a.start) if isinstance(a, Line) else (a.end - a.control2)
    db = (b.end - b.start) if isinstance(b, Line) else (b.control1 - b.start)
    if abs(da) < 1e-12 or abs(db) < 1e-12: REPRODUCED('degenerate segment in the result: %r' % q)
    if abs(da / abs(da) - db / abs(db)) > 1e-6: REPRODUCED('kink between result segments %d and %d: directions %r, %r; result %r' % (i, (i + 1) % n, da / abs(da), db / abs(db), q))
for s in q:
    for t in (0, 0.25, 0.5, 0.75, 1):
        z = s.point(t)
        d = min(seg.radialrange(z)[0][0] for seg in p)
        if d > mj + 1e-9: REPRODUCED('point %r of the result is %r away from the original path (maxjointsize %r)' % (z, d, mj))
if len(set((type(s).__name__, s.start, s.end) for s in q)) != len(q): REPRODUCED('a segment is repeated in the result: %r' % q)

NOT_REPRODUCED()
