# replay of a solver counterexample against the real library (exit 1 = reproduces)
import sys, warnings
sys.path.insert(0, '/tmp/sr/C20-m5')
warnings.simplefilter('ignore')
import numpy as np
from svgpathtools import *
import svgpathtools
def close(a, b, rel=1e-7, ab=1e-9):
    return abs(a - b) <= ab + rel * max(abs(a), abs(b))
def REPRODUCED(msg):
    print('REPRODUCED:', msg); sys.exit(1)
def NOT_REPRODUCED(msg=''):
    print('not reproduced', msg); sys.exit(0)


ps = [(-1+2j), (-1+2j), (-1+2j), 0j]; t = 0; want_dir = (1-2j)
seg = bpoints2bezier(ps)
try:
    ut = seg.unit_tangent(t)
except Exception as e:
    REPRODUCED('unit_tangent(%r) of %r raised %r; the one-sided limit is %r' % (t, seg, e, want_dir / abs(want_dir)))
want = want_dir / abs(want_dir)
if abs(ut - want) > 1e-6:
    REPRODUCED('unit_tangent(%r) of %r = %r but the curve travels in direction %r' % (t, seg, ut, want))
nm = seg.normal(t)
if abs(nm + 1j * want) > 1e-6: REPRODUCED('normal(%r) = %r, expected %r' % (t, nm, -1j * want))

NOT_REPRODUCED()
