# replay of a solver counterexample against the real library (exit 1 = reproduces)
import sys, warnings
sys.path.insert(0, '/repo')
warnings.simplefilter('ignore')
import numpy as np
from svgpathtools import *
import svgpathtools
def close(a, b, rel=1e-7, ab=1e-9):
    return abs(a - b) <= ab + rel * max(abs(a), abs(b))
def REPRODUCED(msg):
    print('REPRODUCED:', msg); sys.exit(1)
def NOT_REPRODUCED(msg=''):
    print('not reproduced', msg); sys.exit(0)


from svgpathtools import svgstr2paths, Document
svg = '<svg xmlns="http://www.w3.org/2000/svg"><rect x="0.0" y="0.0" width="1.5" height="1.5" rx="0.5" ry="0.5"/></svg>'
ref = [('L', (0.5+0j), (1+0j)), ('A', (1+0j), 0.5, 0.5, 0, False, True, (1.5+0.5j)), ('L', (1.5+0.5j), (1.5+1j)), ('A', (1.5+1j), 0.5, 0.5, 0, False, True, (1+1.5j)), ('L', (1+1.5j), (0.5+1.5j)), ('A', (0.5+1.5j), 0.5, 0.5, 0, False, True, 1j), ('L', 1j, 0.5j), ('A', 0.5j, 0.5, 0.5, 0, False, True, (0.5+0j))]
via = 'Document'
p = svgstr2paths(svg)[0][0] if via == 'svg2paths' else Document.from_svg_string(svg).paths()[0]
def ok(r, s):
    if r[0] == 'L': return isinstance(s, Line) and close(s.start, r[1]) and close(s.end, r[2])
    return isinstance(s, Arc) and close(s.start, r[1]) and close(s.end, r[7]) and s.large_arc == r[5] and s.sweep == r[6] and \
        (close(s.radius, complex(r[2], r[3])) or abs(s.radius) > abs(complex(r[2], r[3]))) and close(s.rotation, r[4])
if len(p) != len(ref) or not all(ok(r, s) for r, s in zip(ref, p)):
    REPRODUCED('%s\nis read as %r\nSVG geometry: %r' % (svg, p, ref))

NOT_REPRODUCED()
