# replay of a solver counterexample against the real library (exit 1 = reproduces)
import sys, warnings
sys.path.insert(0, '/repo')
warnings.simplefilter('ignore')
import numpy as np
from svgpathtools import *
import svgpathtools
def close(a, b, rel=1e-7, ab=1e-9):
    return abs(a - b) <= ab + rel * max(abs(a), abs(b))
def REPRODUCED(msg):
    print('REPRODUCED:', msg); sys.exit(1)
def NOT_REPRODUCED(msg=''):
    print('not reproduced', msg); sys.exit(0)


import tempfile, os
from svgpathtools import svgstr2paths, Document
from svgpathtools.svg_io_sax import SaxDocument
svg = '<svg xmlns="http://www.w3.org/2000/svg"><g transform="translate(1.0,1.0)"><g transform="rotate(1.0)"><path d="M 3.0,2.0 L 1.0,1.0 L 2.0,2.0" transform="scale(1.0,1.0)"/></g></g></svg>'; reader = 'paths_from_group'; exp = [[((-2-1j), 0j), (0j, (-1-1j))]]
if reader == 'Document.paths': out = Document.from_svg_string(svg).paths()
elif reader == 'paths_from_group':
    doc = Document.from_svg_string(svg); out = doc.paths_from_group(doc.root)
elif reader == 'svg2paths': out = svgstr2paths(svg)[0]
else:
    fd, fn = tempfile.mkstemp(suffix='.svg'); os.write(fd, svg.encode()); os.close(fd)
    try:
        try: out = SaxDocument(fn).flatten_all_paths()
        except Exception as e: REPRODUCED('SaxDocument raised %r on %s' % (e, svg))
    finally: os.remove(fn)
if len(out) != len(exp): REPRODUCED('%s returned %d paths for %d elements: %s' % (reader, len(out), len(exp), svg))
for p, e in zip(out, exp):
    if len(p) != len(e) or any(abs(s.start - a) > 1e-7 * (1 + abs(a)) or abs(s.end - b) > 1e-7 * (1 + abs(b)) for s, (a, b) in zip(p, e)):
        REPRODUCED('%s on\n%s\nreturned %r\nreference flattener: %r' % (reader, svg, p, e))

NOT_REPRODUCED()
