# replay of a solver counterexample against the real library (exit 1 = reproduces)
import sys, warnings
sys.path.insert(0, '/tmp/sr/C17-m5')
warnings.simplefilter('ignore')
import numpy as np
from svgpathtools import *
import svgpathtools
def close(a, b, rel=1e-7, ab=1e-9):
    return abs(a - b) <= ab + rel * max(abs(a), abs(b))
def REPRODUCED(msg):
    print('REPRODUCED:', msg); sys.exit(1)
def NOT_REPRODUCED(msg=''):
    print('not reproduced', msg); sys.exit(0)


from svgpathtools import svgstr2paths, Document
svg = '<svg xmlns="http://www.w3.org/2000/svg"><circle cx="1000.1875" cy="1037.0625" r="1074.1875"/></svg>'
ref = [('A', (-74+1037.0625j), 1074.1875, 1074.1875, 0, True, False, (2074.375+1037.0625j)), ('A', (2074.375+1037.0625j), 1074.1875, 1074.1875, 0, True, False, (-74+1037.0625j))]
via = 'svg2paths'
p = svgstr2paths(svg)[0][0] if via == 'svg2paths' else Document.from_svg_string(svg).paths()[0]
def ok(r, s):
    if r[0] == 'L': return isinstance(s, Line) and close(s.start, r[1]) and close(s.end, r[2])
    return isinstance(s, Arc) and close(s.start, r[1]) and close(s.end, r[7]) and s.large_arc == r[5] and s.sweep == r[6] and \
        (close(s.radius, complex(r[2], r[3])) or abs(s.radius) > abs(complex(r[2], r[3]))) and close(s.rotation, r[4])
if len(p) != len(ref) or not all(ok(r, s) for r, s in zip(ref, p)):
    REPRODUCED('%s\nis read as %r\nSVG geometry: %r' % (svg, p, ref))

NOT_REPRODUCED()
