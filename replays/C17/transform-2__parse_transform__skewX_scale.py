# replay of a solver counterexample against the real library (exit 1 = reproduces)
import sys, warnings
sys.path.insert(0, '/tmp/sr/C17-m6')
warnings.simplefilter('ignore')
import numpy as np
from svgpathtools import *
import svgpathtools
def close(a, b, rel=1e-7, ab=1e-9):
    return abs(a - b) <= ab + rel * max(abs(a), abs(b))
def REPRODUCED(msg):
    print('REPRODUCED:', msg); sys.exit(1)
def NOT_REPRODUCED(msg=''):
    print('not reproduced', msg); sys.exit(0)


import math
from svgpathtools.parser import parse_transform
s = 'skewX(0.0),scale(1.0  0.0)'
def spec(kind, v):
    if kind == 'matrix': a, b, c, d, e, f = v; return np.array([[a, c, e], [b, d, f], [0, 0, 1.0]])
    if kind == 'translate': return np.array([[1, 0, v[0]], [0, 1, (v[1] if len(v) > 1 else 0.0)], [0, 0, 1.0]])
    if kind == 'scale': return np.array([[v[0], 0, 0], [0, (v[1] if len(v) > 1 else v[0]), 0], [0, 0, 1.0]])
    if kind == 'rotate':
        a = math.radians(v[0]); r = np.array([[math.cos(a), -math.sin(a), 0], [math.sin(a), math.cos(a), 0], [0, 0, 1.0]])
        if len(v) == 3:
            t1 = np.array([[1, 0, v[1]], [0, 1, v[2]], [0, 0, 1.0]]); t2 = np.array([[1, 0, -v[1]], [0, 1, -v[2]], [0, 0, 1.0]])
            return t1.dot(r).dot(t2)
        return r
    if kind == 'skewX': return np.array([[1, math.tan(math.radians(v[0])), 0], [0, 1, 0], [0, 0, 1.0]])
    if kind == 'skewY': return np.array([[1, 0, 0], [math.tan(math.radians(v[0])), 1, 0], [0, 0, 1.0]])
want = np.identity(3)
for kind, v in [('skewX', [0.0]), ('scale', [1.0, 0.0])]:
    want = want.dot(spec(kind, v))
got = parse_transform(s)
if not np.allclose(got, want, rtol=1e-9, atol=1e-9):
    REPRODUCED('parse_transform(%r) =\n%r\nSVG 1.1 7.6 gives\n%r' % (s, got, want))

NOT_REPRODUCED()
