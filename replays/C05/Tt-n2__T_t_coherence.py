# replay of a solver counterexample against the real library (exit 1 = reproduces)
import sys, warnings
sys.path.insert(0, '/repo')
warnings.simplefilter('ignore')
import numpy as np
from svgpathtools import *
import svgpathtools
def close(a, b, rel=1e-7, ab=1e-9):
    return abs(a - b) <= ab + rel * max(abs(a), abs(b))
def REPRODUCED(msg):
    print('REPRODUCED:', msg); sys.exit(1)
def NOT_REPRODUCED(msg=''):
    print('not reproduced', msg); sys.exit(0)


ls = [1.0, 0.0]
T = 1.0
segs = []
x = 0.0
for i, l in enumerate(ls):
    segs.append(Line(complex(x, 3*i), complex(x + l, 3*i)))     # disjoint horizontal lines of the given lengths
    x += l + 7
p = Path(*segs)
try:
    k, t = p.T2t(T)
    pt = p.point(T)
    back = p.t2T(k, t)
except Exception as e:
    REPRODUCED('lengths %r, T=%r: %r' % (ls, T, e))
L = sum(ls)
cum = [sum(ls[:i]) / L for i in range(len(ls) + 1)]
eps = 1e-9
if not (-eps <= t <= 1 + eps): REPRODUCED('t=%r outside [0,1] (lengths %r, T=%r)' % (t, ls, T))
if not (cum[k] - eps <= T <= cum[k+1] + eps): REPRODUCED('T=%r not in the interval %r of segment %d' % (T, (cum[k], cum[k+1]), k))
if abs(back - T) > eps: REPRODUCED('t2T(T2t(T)) = %r != T = %r' % (back, T))
if abs(pt - segs[k].point(t)) > 1e-7 * (1 + abs(pt)): REPRODUCED('point(T)=%r but segment %d at t=%r is %r' % (pt, k, t, segs[k].point(t)))
if abs(p.point(0) - segs[0].start) > eps or abs(p.point(1) - segs[-1].end) > eps: REPRODUCED('point(0)/point(1) are not start/end')

NOT_REPRODUCED()
