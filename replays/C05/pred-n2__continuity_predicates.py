# replay of a solver counterexample against the real library (exit 1 = reproduces)
import sys, warnings
sys.path.insert(0, '/repo')
warnings.simplefilter('ignore')
import numpy as np
from svgpathtools import *
import svgpathtools
def close(a, b, rel=1e-7, ab=1e-9):
    return abs(a - b) <= ab + rel * max(abs(a), abs(b))
def REPRODUCED(msg):
    print('REPRODUCED:', msg); sys.exit(1)
def NOT_REPRODUCED(msg=''):
    print('not reproduced', msg); sys.exit(0)


pts = [((-3-1j), 0j), ((-3-1j), (-3+1j))]
segs = [Line(a, b) for a, b in pts]
p = Path(*segs)
n = len(segs)
joined = [segs[i].end == segs[i+1].start for i in range(n-1)]
if p.iscontinuous() != all(joined): REPRODUCED('iscontinuous()=%r for %r' % (p.iscontinuous(), pts))
if all(joined) and p.isclosed() != (segs[0].start == segs[-1].end): REPRODUCED('isclosed wrong for %r' % (pts,))
subs = p.continuous_subpaths()
flat = [s for sp in subs for s in sp]
if len(flat) != n or any(a is not b for a, b in zip(flat, segs)): REPRODUCED('subpaths do not concatenate back: %r' % (subs,))
if any(not sp.iscontinuous() for sp in subs): REPRODUCED('a returned subpath is not continuous: %r' % (subs,))
idx = 0
for sp in subs[:-1]:
    idx += len(sp)
    if joined[idx-1]: REPRODUCED('subpaths are not maximal: %r' % (subs,))
if p.start != segs[0].start or p.end != segs[-1].end: REPRODUCED('start/end wrong')

NOT_REPRODUCED()
