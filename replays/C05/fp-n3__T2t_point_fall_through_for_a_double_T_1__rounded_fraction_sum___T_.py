# replay of a solver counterexample against the real library (exit 1 = reproduces)
import sys, warnings
sys.path.insert(0, '/repo')
warnings.simplefilter('ignore')
import numpy as np
from svgpathtools import *
import svgpathtools
def close(a, b, rel=1e-7, ab=1e-9):
    return abs(a - b) <= ab + rel * max(abs(a), abs(b))
def REPRODUCED(msg):
    print('REPRODUCED:', msg); sys.exit(1)
def NOT_REPRODUCED(msg=''):
    print('not reproduced', msg); sys.exit(0)


ls = [470.1892743106284, 1.9339958652625155, 312.70716210503855]; T = 0.9999999999999999
segs = [Line(0j, complex(l, 0)) for l in ls]      # |end-start| is exactly l
assert [s.length() for s in segs] == ls
p = Path(*segs)
for nm in ('T2t', 'point'):
    try:
        getattr(p, nm)(T)
    except Exception as e:
        REPRODUCED('Path.%s(%r) raises %r for line lengths %r (0 < T < 1)' % (nm, T, e, ls))

NOT_REPRODUCED()
