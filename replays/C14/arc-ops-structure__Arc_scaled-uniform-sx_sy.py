# replay of a solver counterexample against the real library (exit 1 = reproduces)
import sys, warnings
sys.path.insert(0, '/tmp/sr/x14')
warnings.simplefilter('ignore')
import numpy as np
from svgpathtools import *
import svgpathtools
def close(a, b, rel=1e-7, ab=1e-9):
    return abs(a - b) <= ab + rel * max(abs(a), abs(b))
def REPRODUCED(msg):
    print('REPRODUCED:', msg); sys.exit(1)
def NOT_REPRODUCED(msg=''):
    print('not reproduced', msg); sys.exit(0)


import cmath, math, random
name = 'scaled-uniform-sx=sy'
rnd = random.Random(3)
arcs = [Arc(3+0j, 3+2j, 0, False, True, -3+0j), Arc(1+1j, 2+1j, 25.0, True, False, 3+2j), Arc(0j, 1+3j, -40.0, False, False, 2-1j)]
for a in arcs:
    for trial in range(6):
        t = rnd.random(); z0 = complex(rnd.uniform(-5, 5), rnd.uniform(-5, 5)); degs = rnd.uniform(-170, 170); sx = rnd.choice([-2.5, 0.5, 3.0])
        p = a.point(t); rot = cmath.exp(1j*math.radians(degs))
        cases = {'translated': (lambda: a.translated(z0), p + z0),
                 'rotated': (lambda: a.rotated(degs, z0), rot*(p - z0) + z0),
                 'rotated-default-origin': (lambda: a.rotated(degs), rot*(p - a.center) + a.center),
                 'scaled-uniform': (lambda: a.scaled(sx, origin=z0), sx*(p - z0) + z0),
                 'scaled-uniform-sx=sy': (lambda: a.scaled(sx, sx, origin=z0), sx*(p - z0) + z0)}
        f, want = cases[name]
        got = f().point(t)
        if abs(got - want) > 1e-6 * (1 + abs(want)):
            REPRODUCED('%s of %r: point(%r) is %r, transformed point is %r' % (name, a, t, got, want))

NOT_REPRODUCED()
