# replay of a solver counterexample against the real library (exit 1 = reproduces)
import sys, warnings
sys.path.insert(0, '/tmp/sr/C14-m4')
warnings.simplefilter('ignore')
import numpy as np
from svgpathtools import *
import svgpathtools
def close(a, b, rel=1e-7, ab=1e-9):
    return abs(a - b) <= ab + rel * max(abs(a), abs(b))
def REPRODUCED(msg):
    print('REPRODUCED:', msg); sys.exit(1)
def NOT_REPRODUCED(msg=''):
    print('not reproduced', msg); sys.exit(0)


ib, ob = [-3.0, -2.0, -2.0, -2.0], [-4.0, -1.0, -3.0, -1.0]
outer = Path(Line(complex(ob[0], ob[2]), complex(ob[1], ob[2])), Line(complex(ob[1], ob[2]), complex(ob[1], ob[3])),
             Line(complex(ob[1], ob[3]), complex(ob[0], ob[3])), Line(complex(ob[0], ob[3]), complex(ob[0], ob[2])))
inner = Path(Line(complex(ib[0], ib[2]), complex(ib[1], ib[3])))
# the inner segment lies strictly inside the rectangle: contained, not crossing, start enclosed
strictly = ob[0] < ib[0] <= ib[1] < ob[1] and ob[2] < ib[2] <= ib[3] < ob[3]
if strictly:
    got = inner.is_contained_by(outer)
    if got is not True and got != True:
        REPRODUCED('%r.is_contained_by(rectangle %r) = %r although the segment lies strictly inside it' % (inner, ob, got))
    out = Path(Line(complex(ob[1] + 1 + ib[0] - ob[0], ib[2]), complex(ob[1] + 1 + ib[1] - ob[0], ib[3])))
    got = out.is_contained_by(outer)
    if got:
        REPRODUCED('%r.is_contained_by(rectangle %r) = %r although the segment lies outside it' % (out, ob, got))

NOT_REPRODUCED()
