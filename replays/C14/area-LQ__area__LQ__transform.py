# replay of a solver counterexample against the real library (exit 1 = reproduces)
import sys, warnings
sys.path.insert(0, '/tmp/sr/C14-m3')
warnings.simplefilter('ignore')
import numpy as np
from svgpathtools import *
import svgpathtools
def close(a, b, rel=1e-7, ab=1e-9):
    return abs(a - b) <= ab + rel * max(abs(a), abs(b))
def REPRODUCED(msg):
    print('REPRODUCED:', msg); sys.exit(1)
def NOT_REPRODUCED(msg=''):
    print('not reproduced', msg); sys.exit(0)


from fractions import Fraction as F
from math import comb
p = Path(Line(-1j, (-1+0j)), QuadraticBezier((-1+0j), 0j, -1j))
def pc(ps):
    n = len(ps) - 1; out = []
    for j in range(n + 1):
        cx = F(0); cy = F(0)
        for i in range(j + 1):
            w = comb(n, j) * comb(j, i) * (-1) ** (i + j)
            cx += w * F(ps[i].real); cy += w * F(ps[i].imag)
        out.append((cx, cy))
    return out
def green(path):
    tot = F(0)
    for s in path:
        c = pc(list(s.bpoints()))
        for i, ci in enumerate(c):
            for j, dj in enumerate(c):
                if j: tot += ci[0] * dj[1] * j / (i + j)
    return float(tot)
sx, sy, z0 = 2.0, 3.0, (3-2j)
M = np.array([[1.0, 0.0, 0.0], [0.0, 1.0, -1.0], [0.0, 0.0, 1.0]], dtype=float)
a = p.area(); want = green(p)
tol = 1e-7 * (1 + abs(want))
if abs(a - want) > tol: REPRODUCED('area() = %r, Green integral = %r for %r' % (a, want, p))
if abs(p.reversed().area() + want) > tol: REPRODUCED('reversed().area() = %r, expected %r' % (p.reversed().area(), -want))
if abs(p.translated(z0).area() - want) > 1e-6 * (1 + abs(want) + abs(z0) ** 2): REPRODUCED('translated area changed: %r vs %r' % (p.translated(z0).area(), want))
if abs(p.scaled(sx, sy).area() - sx * sy * want) > 1e-6 * (1 + abs(sx * sy * want)): REPRODUCED('scaled(%r,%r).area() = %r, expected %r' % (sx, sy, p.scaled(sx, sy).area(), sx * sy * want))
det = M[0, 0] * M[1, 1] - M[0, 1] * M[1, 0]
if abs(transform(p, M).area() - det * want) > 1e-6 * (1 + abs(det * want)): REPRODUCED('transform area %r, expected det*area = %r' % (transform(p, M).area(), det * want))

NOT_REPRODUCED()
