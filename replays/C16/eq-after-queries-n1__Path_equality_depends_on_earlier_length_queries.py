# replay of a solver counterexample against the real library (exit 1 = reproduces)
import sys, warnings
sys.path.insert(0, '/tmp/sr/C16-m5')
warnings.simplefilter('ignore')
import numpy as np
from svgpathtools import *
import svgpathtools
def close(a, b, rel=1e-7, ab=1e-9):
    return abs(a - b) <= ab + rel * max(abs(a), abs(b))
def REPRODUCED(msg):
    print('REPRODUCED:', msg); sys.exit(1)
def NOT_REPRODUCED(msg=''):
    print('not reproduced', msg); sys.exit(0)


segs = lambda: [Line(0j, 4+3j), CubicBezier(4+3j, 6+8j, -2+5j, 1+1j), Arc(1+1j, 2+1j, 30, 0, 1, 3+2j)]
for (ka, kb) in (({'error': 1e-3}, {}), ({'error': 1e-2, 'min_depth': 2}, {'error': 1e-9}), ({}, {'min_depth': 9})):
    for first in ('length', 'point', 'none'):
        p, q = Path(*segs()), Path(*segs())
        p.length(**ka)
        if first == 'length': q.length(**kb)
        elif first == 'point': q.point(0.3)
        if not (p == q) or (p != q) or not (q == p):
            REPRODUCED('two paths of equal segments compare unequal after p.length(**%r) and q.%s(**%r)' % (ka, first, kb))
        if hash(p) != hash(q):
            REPRODUCED('two paths of equal segments hash differently after p.length(**%r) and q.%s(**%r)' % (ka, first, kb))

NOT_REPRODUCED()
