# replay of a solver counterexample against the real library (exit 1 = reproduces)
import sys, warnings
sys.path.insert(0, '/tmp/sr/C16-m6')
warnings.simplefilter('ignore')
import numpy as np
from svgpathtools import *
import svgpathtools
def close(a, b, rel=1e-7, ab=1e-9):
    return abs(a - b) <= ab + rel * max(abs(a), abs(b))
def REPRODUCED(msg):
    print('REPRODUCED:', msg); sys.exit(1)
def NOT_REPRODUCED(msg=''):
    print('not reproduced', msg); sys.exit(0)


import random
rnd = random.Random(11)
def rl():
    return Line(complex(rnd.randint(-9, 9), rnd.randint(-9, 9)), complex(rnd.randint(-9, 9), rnd.randint(-9, 9)))
def rc():
    return complex(rnd.randint(-9, 9), rnd.randint(-9, 9))
history = [('insert', -4), ('pop', None)]
prequery = True
def observe(p):
    out = {}
    for nm, f in (('length', lambda: p.length()), ('start', lambda: p.start), ('end', lambda: p.end), ('T2t', lambda: p.T2t(0.37)),
                  ('point', lambda: p.point(0.37)), ('bbox', lambda: p.bbox()), ('d', lambda: p.d()), ('len', lambda: len(p))):
        try: out[nm] = f()
        except (ZeroDivisionError, AssertionError) as e: out[nm] = 'raised ' + type(e).__name__
    return out
for trial in range(30):
    while True:
        segs = [rl() for _ in range(3)]
        if all(s.start != s.end for s in segs): break
    p = Path(*segs)
    if prequery: observe(p)
    for step, (op, arg) in enumerate(history):
        try:
            if op == 'setitem': p[arg] = rl()
            elif op == 'insert': p.insert(arg, rl())
            elif op == 'delitem': del p[arg]
            elif op == 'setslice': p[arg[0]:arg[1]] = [rl(), rl()]
            elif op == 'append': p.append(rl())
            elif op == 'extend': p.extend([rl(), rl()])
            elif op == 'pop': p.pop()
            elif op == 'reverse': p.reverse()
            elif op == 'start=': p.start = rc()
            elif op == 'end=': p.end = rc()
        except IndexError:
            break
        if len(p) == 0: break
        got = observe(p); want = observe(Path(*list(p)))
        for k in got:
            a, b = got[k], want[k]
            ok = (a == b) if not isinstance(a, (float, complex)) else abs(a - b) <= 1e-9 * (1 + abs(b))
            if k == 'T2t' and isinstance(a, tuple) and isinstance(b, tuple): ok = a[0] == b[0] and abs(a[1] - b[1]) <= 1e-9
            if k == 'bbox' and isinstance(a, tuple) and isinstance(b, tuple): ok = all(abs(x - y) <= 1e-9 for x, y in zip(a, b))
            if not ok:
                REPRODUCED('after %r (step %d) %s() = %r on the mutated path but %r on a fresh Path of the same segments %r' % (history, step, k, a, b, list(p)))

NOT_REPRODUCED()
