# replay of a solver counterexample against the real library (exit 1 = reproduces)
import sys, warnings
sys.path.insert(0, '/repo')
warnings.simplefilter('ignore')
import numpy as np
from svgpathtools import *
import svgpathtools
def close(a, b, rel=1e-7, ab=1e-9):
    return abs(a - b) <= ab + rel * max(abs(a), abs(b))
def REPRODUCED(msg):
    print('REPRODUCED:', msg); sys.exit(1)
def NOT_REPRODUCED(msg=''):
    print('not reproduced', msg); sys.exit(0)


cands = []
a = parse_path('M0,0 L1,1 L0,0'); b = parse_path('M0,0 L1,1 L0,0 Z'); cands.append((a, b))
a = Path(Line(0j, 1+1j)); b = Path(Line(0j, 1+1j)); b._closed = True; cands.append((a, b))
cands.append((Line(0j, 1+1j), Line(0j, 1+1j))); cands.append((Arc(0j, 2+1j, 30.0, False, True, 1+1j), Arc(0j, 2+1j, 30.0, 0, 1, 1+1j)))
cands.append((CubicBezier(0j, 1j, 1+1j, 1+0j), CubicBezier(0, 1j, 1+1j, 1.0))); cands.append((QuadraticBezier(0j, 1j, 1+0j), QuadraticBezier(0, 1j, 1)))
for a, b in cands:
    if a == b and hash(a) != hash(b):
        REPRODUCED('%r == %r but their hashes differ' % (a, b))

NOT_REPRODUCED()
