# replay of a solver counterexample against the real library (exit 1 = reproduces)
import sys, warnings
sys.path.insert(0, '/repo')
warnings.simplefilter('ignore')
import numpy as np
from svgpathtools import *
import svgpathtools
def close(a, b, rel=1e-7, ab=1e-9):
    return abs(a - b) <= ab + rel * max(abs(a), abs(b))
def REPRODUCED(msg):
    print('REPRODUCED:', msg); sys.exit(1)
def NOT_REPRODUCED(msg=''):
    print('not reproduced', msg); sys.exit(0)


import svgpathtools.path as P, itertools
# control points whose hashes collide in CPython (hash(-1) == hash(-2)): a cache keyed by hash() instead of the points is stale here
if 'reassign' == 'reassign':
    c_ = P.CubicBezier(-1+2j, 30+90j, 70-60j, 100+10j); c_.length()
    c_.start = -2+2j
    if c_.length() != P.CubicBezier(-2+2j, 30+90j, 70-60j, 100+10j).length():
        REPRODUCED('length() after reassigning start -1+2j -> -2+2j returns the old value')
deg, variant, quad_available, e1m, e2m, d1m, d2m = 3, 'reassign', True, 0.5, 7719.5, 0.0, 0.0
if not quad_available: P._quad_available = False
sgn = lambda x: (x > 0) - (x < 0)
C = P.CubicBezier if deg == 3 else P.QuadraticBezier
# the solver's model fixes only how the two requests are ordered; try concrete tolerances/depths with the same ordering
for e1, e2, d1, d2 in itertools.product([1e-2, 1e-12, 0.1], [1e-2, 1e-12, 0.1], [1, 5, 9], [1, 5, 9]):
    if sgn(e1 - e2) != sgn(e1m - e2m) or sgn(d1 - d2) != sgn(d1m - d2m): continue
    ps = [0j, 30+90j, 70-60j, 100+10j][:deg+1] if deg == 3 else [0j, 50+80j, 100+0j]
    seg = C(*ps)
    seg.length(error=e1, min_depth=d1)
    cur = ps; target = seg
    if variant == 'reassign':
        qs = [p * (1.5 + 0.5j) + 3 for p in ps]
        for nm, q in zip((['start', 'control', 'end'] if deg == 2 else ['start', 'control1', 'control2', 'end']), qs): setattr(seg, nm, q)
        cur = qs
    elif variant == 'reversed':
        target = seg.reversed(); cur = ps[::-1]; seg.length(error=e1, min_depth=d1)
    got = target.length(error=e2, min_depth=d2)
    want = C(*cur).length(error=e2, min_depth=d2)
    better = C(*cur).length(error=min(e1, e2), min_depth=max(d1, d2))
    if got != want and abs(got - better) > abs(want - better):
        REPRODUCED('length(error=%r,min_depth=%r) after length(error=%r,min_depth=%r) [%s, scipy %s] = %r, fresh segment gives %r' % (e2, d2, e1, d1, variant, quad_available, got, want))

NOT_REPRODUCED()
