# replay of a solver counterexample against the real library (exit 1 = reproduces)
import sys, warnings
sys.path.insert(0, '/tmp/sr/C10-m6')
warnings.simplefilter('ignore')
import numpy as np
from svgpathtools import *
import svgpathtools
def close(a, b, rel=1e-7, ab=1e-9):
    return abs(a - b) <= ab + rel * max(abs(a), abs(b))
def REPRODUCED(msg):
    print('REPRODUCED:', msg); sys.exit(1)
def NOT_REPRODUCED(msg=''):
    print('not reproduced', msg); sys.exit(0)


import random, itertools
kinds = 'C'; joined = [True]; op = 'scaled1'
rnd = random.Random(7)
def rc(): return complex(rnd.uniform(-100, 100), rnd.uniform(-100, 100))
bad = None
for trial in range(400):
    segs = []
    for i, k in enumerate(kinds):
        n = {'L': 2, 'Q': 3, 'C': 4}[k]
        pts = [rc() for _ in range(n)]
        if i > 0 and joined[i-1]: pts[0] = segs[-1].end
        if i == len(kinds) - 1 and joined[-1]: pts[-1] = segs[0].start if segs else pts[0]
        segs.append(bpoints2bezier(pts))
    p = Path(*segs)
    if op == 'translated': q = p.translated(rc())
    elif op == 'rotated': q = p.rotated(rnd.uniform(-180, 180), rc())
    elif op == 'scaled': q = p.scaled(rnd.uniform(0.1, 3), rnd.uniform(0.1, 3), origin=rc())
    elif op == 'scaled1': q = p.scaled(rnd.uniform(0.1, 3))
    else:
        M = np.array([[rnd.uniform(-2, 2), rnd.uniform(-2, 2), rnd.uniform(-9, 9)], [rnd.uniform(-2, 2), rnd.uniform(-2, 2), rnd.uniform(-9, 9)], [0, 0, 1]])
        q = transform(p, M)
    n = len(kinds)
    for i in range(n):
        if joined[i] and q[i].end != q[(i+1) % n].start:
            bad = (i, p, q); break
    if q.start != q[0].start or q.end != q[-1].end or (all(joined) and not q.isclosed()):
        REPRODUCED('%s: Path.start/end/isclosed of the result disagree with its segments: start %r vs %r, end %r vs %r, closed %r' % (op, q.start, q[0].start, q.end, q[-1].end, q.isclosed() if q.iscontinuous() else None))
    if bad: break
if bad:
    i, p, q = bad
    REPRODUCED('%s: joint %d coincided exactly before (%r) but not after: %r vs %r' % (op, i, p[i].end, q[i].end, q[(i+1) % len(q)].start))

NOT_REPRODUCED()
