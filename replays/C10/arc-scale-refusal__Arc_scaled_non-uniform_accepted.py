# replay of a solver counterexample against the real library (exit 1 = reproduces)
import sys, warnings
sys.path.insert(0, '/repo')
warnings.simplefilter('ignore')
import numpy as np
from svgpathtools import *
import svgpathtools
def close(a, b, rel=1e-7, ab=1e-9):
    return abs(a - b) <= ab + rel * max(abs(a), abs(b))
def REPRODUCED(msg):
    print('REPRODUCED:', msg); sys.exit(1)
def NOT_REPRODUCED(msg=''):
    print('not reproduced', msg); sys.exit(0)


a = Arc(0j, 2+1j, 30.0, False, True, 1+1j)
sx, sy = -1.0, 1.0
try:
    b = a.scaled(sx, sy)
except Exception:
    NOT_REPRODUCED()
t = 0.37
p = a.point(t); want = complex(sx*p.real, sy*p.imag)
if sx != sy and min(abs(b.point(u) - want) for u in np.linspace(0, 1, 20001)) > 1e-3:
    REPRODUCED('Arc.scaled(%r,%r) is accepted but the scaled image of point(%r) is not on the result' % (sx, sy, t))

NOT_REPRODUCED()
