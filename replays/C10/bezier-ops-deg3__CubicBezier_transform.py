# replay of a solver counterexample against the real library (exit 1 = reproduces)
import sys, warnings
sys.path.insert(0, '/tmp/sr/C10-m5')
warnings.simplefilter('ignore')
import numpy as np
from svgpathtools import *
import svgpathtools
def close(a, b, rel=1e-7, ab=1e-9):
    return abs(a - b) <= ab + rel * max(abs(a), abs(b))
def REPRODUCED(msg):
    print('REPRODUCED:', msg); sys.exit(1)
def NOT_REPRODUCED(msg=''):
    print('not reproduced', msg); sys.exit(0)


from math import comb
from fractions import Fraction as F
def cF(z): return (F(z.real), F(z.imag))
def bernF(ps, t):
    n = len(ps)-1; t = F(t); x = F(0); y = F(0)
    for i,p in enumerate(ps):
        w = comb(n,i)*(1-t)**(n-i)*t**i
        x += w*F(p.real); y += w*F(p.imag)
    return complex(float(x), float(y))
def derivF(ps, t, k):
    n = len(ps)-1; t = F(t)
    cs = []
    for j in range(n+1):
        cx = F(0); cy = F(0)
        for i in range(j+1):
            w = comb(n,j)*comb(j,i)*(-1)**(i+j)
            cx += w*F(ps[i].real); cy += w*F(ps[i].imag)
        cs.append((cx,cy))
    for _ in range(k):
        cs = [(c[0]*j, c[1]*j) for j,c in enumerate(cs)][1:]
    x = sum((c[0]*t**j for j,c in enumerate(cs)), F(0)); y = sum((c[1]*t**j for j,c in enumerate(cs)), F(0))
    return complex(float(x), float(y))

import cmath, math
import numpy as np
from svgpathtools.path import transform
ps = [(10+0j), 0j, 0j, 0j]; t = 0.0
seg = CubicBezier(*ps)
op = 'transform'; a = {'M': [[0.9999899938702583, -7.450580596923828e-09, -7.450580596923828e-09], [-7.450580596923828e-09, 0.9999923706054688, -7.450580596923828e-09], [0.0, 0.0, 1.0]]}
pt = bernF(ps, t)
if op == 'translated':
    got = seg.translated(a['z0']).point(t); want = pt + a['z0']
elif op == 'rotated':
    got = seg.rotated(a['degs'], a['origin']).point(t); want = cmath.exp(1j*math.radians(a['degs']))*(pt - a['origin']) + a['origin']
elif op == 'rotated-default':
    o = bernF(ps, 0.5)
    got = seg.rotated(a['degs']).point(t); want = cmath.exp(1j*math.radians(a['degs']))*(pt - o) + o
elif op == 'scaled1':
    got = seg.scaled(a['sx'], origin=a['origin']).point(t); want = a['sx']*(pt - a['origin']) + a['origin']
elif op == 'scaled2':
    d = pt - a['origin']
    got = seg.scaled(a['sx'], a['sy'], origin=a['origin']).point(t); want = complex(a['sx']*d.real, a['sy']*d.imag) + a['origin']
elif op == 'scaled-default-origin':
    got = seg.scaled(a['sx'], a['sy']).point(t); want = complex(a['sx']*pt.real, a['sy']*pt.imag)
elif op == 'transform':
    M = np.array(a['M'], dtype=float)
    got = transform(seg, M).point(t)
    v = M.dot(np.array([[pt.real], [pt.imag], [1.0]])); want = complex(v[0, 0], v[1, 0])
if abs(got - want) > 1e-7 * (1 + abs(want) + max(abs(p) for p in ps)):
    REPRODUCED('CubicBezier.%s%r: point(t) of the result is %r, transformed point is %r' % (op, a, got, want))

NOT_REPRODUCED()
