# replay of a solver counterexample against the real library (exit 1 = reproduces)
import sys, warnings
sys.path.insert(0, '/tmp/sr/adhoc')
warnings.simplefilter('ignore')
import numpy as np
from svgpathtools import *
import svgpathtools
def close(a, b, rel=1e-7, ab=1e-9):
    return abs(a - b) <= ab + rel * max(abs(a), abs(b))
def REPRODUCED(msg):
    print('REPRODUCED:', msg); sys.exit(1)
def NOT_REPRODUCED(msg=''):
    print('not reproduced', msg); sys.exit(0)


import numpy as np
from svgpathtools.path import transform
rx, ry, rot, M = (1.0, 1.0, 0.0, [[0.0, 1.0, 0.0], [1.0, -2.0, 0.0], [0.0, 0.0, 1.0]])
M = np.array(M)
arcs = [Arc(0.5+0.25j, complex(rx, ry), rot, la, sw, 2+1.5j) for la in (0, 1) for sw in (0, 1)]
for arc in arcs:
    try:
        b = transform(arc, M)
    except Exception as e:
        REPRODUCED('transform(%r, %r) raised %s: %s' % (arc, M.tolist(), type(e).__name__, e))
    for t in (0.0, 0.2, 0.5, 0.9, 1.0):
        p = arc.point(t)
        q = M.dot([p.real, p.imag, 1.0])
        want = complex(q[0], q[1]); got = b.point(t)
        if abs(got - want) > 1e-6 * (1 + abs(want)):
            REPRODUCED('transform(%r, %r).point(%r) = %r but M applied to point(%r) is %r' % (arc, M.tolist(), t, got, t, want))

NOT_REPRODUCED()
