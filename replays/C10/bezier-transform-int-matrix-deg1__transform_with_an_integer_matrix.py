# replay of a solver counterexample against the real library (exit 1 = reproduces)
import sys, warnings
sys.path.insert(0, '/tmp/sr/C10-m4')
warnings.simplefilter('ignore')
import numpy as np
from svgpathtools import *
import svgpathtools
def close(a, b, rel=1e-7, ab=1e-9):
    return abs(a - b) <= ab + rel * max(abs(a), abs(b))
def REPRODUCED(msg):
    print('REPRODUCED:', msg); sys.exit(1)
def NOT_REPRODUCED(msg=''):
    print('not reproduced', msg); sys.exit(0)


import numpy as np
from svgpathtools.path import transform
M = np.array([[2, -1, 3], [1, 3, -2], [0, 0, 1]])            # integer dtype on purpose
ps = [(0.25+1.75j), (0.75+1.25j)]
seg = bpoints2bezier(ps)
try:
    b = transform(seg, M)
except Exception as e:
    REPRODUCED('transform(%r, integer matrix %r) raised %s: %s' % (seg, M.tolist(), type(e).__name__, e))
for t in (0.0, 0.3, 1.0):
    p = seg.point(t); q = M.dot([p.real, p.imag, 1.0]); want = complex(q[0], q[1])
    if abs(b.point(t) - want) > 1e-9 * (1 + abs(want)):
        REPRODUCED('transform(%r, integer matrix %r).point(%r) = %r, M applied to point(t) = %r' % (seg, M.tolist(), t, b.point(t), want))

NOT_REPRODUCED()
