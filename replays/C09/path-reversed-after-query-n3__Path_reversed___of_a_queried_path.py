# replay of a solver counterexample against the real library (exit 1 = reproduces)
import sys, warnings
sys.path.insert(0, '/tmp/sr/C09-m6')
warnings.simplefilter('ignore')
import numpy as np
from svgpathtools import *
import svgpathtools
def close(a, b, rel=1e-7, ab=1e-9):
    return abs(a - b) <= ab + rel * max(abs(a), abs(b))
def REPRODUCED(msg):
    print('REPRODUCED:', msg); sys.exit(1)
def NOT_REPRODUCED(msg=''):
    print('not reproduced', msg); sys.exit(0)


ls = [0.5, 0.5, 1.0]; T = 0.25
segs = []; x = 0.0
for i, l in enumerate(ls):
    segs.append(Line(complex(x, 0), complex(x + l, 0))); x += l
p = Path(*segs)
p.length(); p.point(T)
r = p.reversed()
q = Path(*[Line(s.start, s.end) for s in segs])          # never queried, never reversed
for TT in (T, 0.1, 0.35, 0.6, 0.9):
    if abs(r.point(TT) - q.point(1 - TT)) > 1e-9 * (1 + x): REPRODUCED('after length(): reversed().point(%r) = %r but point(%r) = %r (segment lengths %r)' % (TT, r.point(TT), 1 - TT, q.point(1 - TT), ls))
    if abs(p.point(TT) - q.point(TT)) > 1e-9 * (1 + x): REPRODUCED('reversed() changed the original: point(%r) = %r, was %r (segment lengths %r)' % (TT, p.point(TT), q.point(TT), ls))

NOT_REPRODUCED()
