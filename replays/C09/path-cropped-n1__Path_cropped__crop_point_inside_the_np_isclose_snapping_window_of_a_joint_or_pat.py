# replay of a solver counterexample against the real library (exit 1 = reproduces)
import sys, warnings
sys.path.insert(0, '/repo')
warnings.simplefilter('ignore')
import numpy as np
from svgpathtools import *
import svgpathtools
def close(a, b, rel=1e-7, ab=1e-9):
    return abs(a - b) <= ab + rel * max(abs(a), abs(b))
def REPRODUCED(msg):
    print('REPRODUCED:', msg); sys.exit(1)
def NOT_REPRODUCED(msg=''):
    print('not reproduced', msg); sys.exit(0)


ls = [1.0]; T0 = 0.9999923706054688; T1 = 1.0; wrap = False
n = len(ls)
if wrap:
    # every segment is a cubic loop from 0 back to 0 whose arc length is the requested l_k:
    # the path is continuous and closed whatever the lengths are
    import cmath
    unit = CubicBezier(0j, 1+1j, -1+1j, 0j).length()
    segs = []
    for k, l in enumerate(ls):
        s_ = l / unit; r_ = cmath.exp(0.9j * k)
        segs.append(CubicBezier(0j, s_*(1+1j)*r_, s_*(-1+1j)*r_, 0j))
else:
    pts = [0j]
    for l in ls: pts.append(pts[-1] + l * (1j if len(pts) % 2 else 1))
    segs = [Line(pts[i], pts[i+1]) for i in range(n)]
p = Path(*segs)
try:
    c = p.cropped(T0, T1)
except Exception as e:
    REPRODUCED('Path.cropped(%r,%r) raised %r' % (T0, T1, e))
want = p.length(T0, T1) if not wrap else p.length(T0, 1) + p.length(0, T1)
got = c.length()
if abs(got - want) > 1e-5 * p.length(): REPRODUCED('cropped(%r,%r) has length %r, path.length over the same range is %r; pieces %r' % (T0, T1, got, want, c))
if abs(c.start - p.point(T0)) > 1e-6 or abs(c.end - p.point(T1)) > 1e-6: REPRODUCED('cropped path does not start/end at point(T0)/point(T1)')
if not c.iscontinuous(): REPRODUCED('cropped path is not continuous: %r' % c)

NOT_REPRODUCED()
