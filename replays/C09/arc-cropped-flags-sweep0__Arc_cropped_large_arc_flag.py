# replay of a solver counterexample against the real library (exit 1 = reproduces)
import sys, warnings
sys.path.insert(0, '/repo')
warnings.simplefilter('ignore')
import numpy as np
from svgpathtools import *
import svgpathtools
def close(a, b, rel=1e-7, ab=1e-9):
    return abs(a - b) <= ab + rel * max(abs(a), abs(b))
def REPRODUCED(msg):
    print('REPRODUCED:', msg); sys.exit(1)
def NOT_REPRODUCED(msg=''):
    print('not reproduced', msg); sys.exit(0)


a = Arc(2+0j, 2+2j, 0, True, False, 1+1.7320508075688772j)
for (t0, t1) in ((0.0, 0.75), (0.1, 0.9), (0.25, 1.0), (0.3, 0.4)):
    c = a.cropped(t0, t1)
    for u in (0.0, 0.3, 0.5, 0.8, 1.0):
        if abs(c.point(u) - a.point(t0 + u * (t1 - t0))) > 1e-6 * (1 + abs(a.start) + abs(a.radius)):
            REPRODUCED('%r.cropped(%r,%r).point(%r) = %r but point(%r) = %r' % (a, t0, t1, u, c.point(u), t0 + u * (t1 - t0), a.point(t0 + u * (t1 - t0))))
l, r = a.split(0.4)
if abs(l.end - r.start) > 1e-9 or abs(l.end - a.point(0.4)) > 1e-6: REPRODUCED('split pieces do not meet at point(t)')

NOT_REPRODUCED()
