# replay of a solver counterexample against the real library (exit 1 = reproduces)
import sys, warnings
sys.path.insert(0, '/tmp/sr/C06-m5')
warnings.simplefilter('ignore')
import numpy as np
from svgpathtools import *
import svgpathtools
def close(a, b, rel=1e-7, ab=1e-9):
    return abs(a - b) <= ab + rel * max(abs(a), abs(b))
def REPRODUCED(msg):
    print('REPRODUCED:', msg); sys.exit(1)
def NOT_REPRODUCED(msg=''):
    print('not reproduced', msg); sys.exit(0)


from math import comb
from fractions import Fraction as F
def cF(z): return (F(z.real), F(z.imag))
def bernF(ps, t):
    n = len(ps)-1; t = F(t); x = F(0); y = F(0)
    for i,p in enumerate(ps):
        w = comb(n,i)*(1-t)**(n-i)*t**i
        x += w*F(p.real); y += w*F(p.imag)
    return complex(float(x), float(y))
def derivF(ps, t, k):
    n = len(ps)-1; t = F(t)
    cs = []
    for j in range(n+1):
        cx = F(0); cy = F(0)
        for i in range(j+1):
            w = comb(n,j)*comb(j,i)*(-1)**(i+j)
            cx += w*F(ps[i].real); cy += w*F(ps[i].imag)
        cs.append((cx,cy))
    for _ in range(k):
        cs = [(c[0]*j, c[1]*j) for j,c in enumerate(cs)][1:]
    x = sum((c[0]*t**j for j,c in enumerate(cs)), F(0)); y = sum((c[1]*t**j for j,c in enumerate(cs)), F(0))
    return complex(float(x), float(y))

import svgpathtools.path as P
P._quad_available = True
ps = [0j, (0.75+0j), (0.96875+0j), (1+0j)]; t0 = 0.0; t1 = 0.25
seg = CubicBezier(*ps)
got = seg.length(t0, t1)
N = 1 << 14
pts = [bernF(ps, t0 + (t1 - t0) * i / N) for i in range(N + 1)]
chord = sum(abs(pts[i + 1] - pts[i]) for i in range(N))
if not (got == got) or abs(got - chord) > 1e-5 * (1 + chord):
    REPRODUCED('CubicBezier%r.length(%r,%r) = %r (scipy quadrature %s), chord sum over %d pieces = %r' % (tuple(ps), t0, t1, got, 'available' if P._quad_available else 'unavailable', N, chord))

NOT_REPRODUCED()
