# replay of a solver counterexample against the real library (exit 1 = reproduces)
import sys, warnings
sys.path.insert(0, '/tmp/sr/adhoc')
warnings.simplefilter('ignore')
import numpy as np
from svgpathtools import *
import svgpathtools
def close(a, b, rel=1e-7, ab=1e-9):
    return abs(a - b) <= ab + rel * max(abs(a), abs(b))
def REPRODUCED(msg):
    print('REPRODUCED:', msg); sys.exit(1)
def NOT_REPRODUCED(msg=''):
    print('not reproduced', msg); sys.exit(0)


import math
import svgpathtools.path as P
P._quad_available = False
t0, t1 = 0.0, 0.5
arcs = [Arc(0j, 2+1j, 0, 0, 1, 3+1j), Arc(0j, 2+1j, 30, 1, 0, 3+1j), Arc(1+1j, 5+1j, -75, 1, 1, 2+2j), Arc(0j, 1+1j, 0, 1, 1, 1+1j), Arc(0j, 3+0.5j, 110, 0, 0, -2+4j)]
for arc in arcs:
    for (a, b) in ((t0, t1), (0, 1), (0.25, 0.75)):
        got = arc.length(a, b)
        N = 1 << 14
        pts = [arc.point(a + (b - a) * i / N) for i in range(N + 1)]
        chord = sum(abs(pts[i + 1] - pts[i]) for i in range(N))
        if not (got == got) or abs(got - chord) > 1e-5 * (1 + chord):
            REPRODUCED('%r.length(%r,%r) = %r (scipy quadrature %s), chord sum over %d pieces = %r' % (arc, a, b, got, 'available' if P._quad_available else 'unavailable', N, chord))

NOT_REPRODUCED()
