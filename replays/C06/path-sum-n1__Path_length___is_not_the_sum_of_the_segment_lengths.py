# replay of a solver counterexample against the real library (exit 1 = reproduces)
import sys, warnings
sys.path.insert(0, '/tmp/sr/C06-m6')
warnings.simplefilter('ignore')
import numpy as np
from svgpathtools import *
import svgpathtools
def close(a, b, rel=1e-7, ab=1e-9):
    return abs(a - b) <= ab + rel * max(abs(a), abs(b))
def REPRODUCED(msg):
    print('REPRODUCED:', msg); sys.exit(1)
def NOT_REPRODUCED(msg=''):
    print('not reproduced', msg); sys.exit(0)


ls = [1.0]; loops = [True]
# segments of (about) the given lengths; where the model has start == end the segment is a closed Bezier loop
segs = []; x = 0.0
for i, (l, lp) in enumerate(zip(ls, loops)):
    if lp:
        s0 = CubicBezier(complex(x, 3*i), complex(x + 4, 3*i + 4), complex(x + 4, 3*i - 4), complex(x, 3*i))
        k = max(l, 0.5) / s0.length()
        segs.append(CubicBezier(s0.start, s0.start + k * (s0.control1 - s0.start), s0.start + k * (s0.control2 - s0.start), s0.start))
    else:
        segs.append(Line(complex(x, 3*i), complex(x + max(l, 0.5), 3*i)))
    x += 11
for variant in (segs, segs + [QuadraticBezier(complex(x, 0), complex(x + 2, 5), complex(x, 0))]):
    p = Path(*variant)
    want = sum(s.length() for s in variant)
    got = p.length()
    if abs(got - want) > 1e-7 * (1 + want): REPRODUCED('Path.length() = %r but its segments have lengths %r (sum %r): %r' % (got, [s.length() for s in variant], want, p))
    a, b = p.length(0, 0.4), p.length(0.4, 1)
    if abs(a + b - want) > 1e-6 * (1 + want): REPRODUCED('Path.length(0,.4) + length(.4,1) = %r, sum of segment lengths %r: %r' % (a + b, want, p))

NOT_REPRODUCED()
