# replay of a solver counterexample against the real library (exit 1 = reproduces)
import sys, warnings
sys.path.insert(0, '/tmp/sr/C06-m4')
warnings.simplefilter('ignore')
import numpy as np
from svgpathtools import *
import svgpathtools
def close(a, b, rel=1e-7, ab=1e-9):
    return abs(a - b) <= ab + rel * max(abs(a), abs(b))
def REPRODUCED(msg):
    print('REPRODUCED:', msg); sys.exit(1)
def NOT_REPRODUCED(msg=''):
    print('not reproduced', msg); sys.exit(0)


import svgpathtools.path as P
curves = [CubicBezier(1+1j, 5+2j, 2+6j, 1+1j), CubicBezier(0j, 2+0j, 2+0j, 0j), QuadraticBezier(0j, 1+1j, 0j),
          CubicBezier(0j, 30+90j, 70-60j, 100+10j), CubicBezier(0j, 4+0j, -3+0j, 1e-9+0j), QuadraticBezier(1+1j, 3+1j, 1+1j)]
for seg in curves:
    for (a, b) in ((0, 1), (0.25, 0.75)):
        got = P.segment_length(seg, a, b, seg.point(a), seg.point(b), P.LENGTH_ERROR, P.LENGTH_MIN_DEPTH, 0)
        N = 1 << 14
        pts = [seg.point(a + (b - a) * i / N) for i in range(N + 1)]
        want = sum(abs(pts[i + 1] - pts[i]) for i in range(N))
        if abs(got - want) > 1e-4 * (1 + want):
            REPRODUCED('segment_length(%r, %r, %r) with the default error/min_depth = %r, chord sum over %d pieces = %r' % (seg, a, b, got, N, want))

NOT_REPRODUCED()
