# replay of a solver counterexample against the real library (exit 1 = reproduces)
import sys, warnings
sys.path.insert(0, '/repo')
warnings.simplefilter('ignore')
import numpy as np
from svgpathtools import *
import svgpathtools
def close(a, b, rel=1e-7, ab=1e-9):
    return abs(a - b) <= ab + rel * max(abs(a), abs(b))
def REPRODUCED(msg):
    print('REPRODUCED:', msg); sys.exit(1)
def NOT_REPRODUCED(msg=''):
    print('not reproduced', msg); sys.exit(0)


ls = [9.0, 9.0, 9.0]; T0 = 0.0; T1 = 0.7037037037037037
segs = []; x = 0.0
for i, l in enumerate(ls):
    segs.append(Line(complex(x, 3*i), complex(x + l, 3*i))); x += l + 7
p = Path(*segs)
got = p.length(T0, T1)
want = (T1 - T0) * sum(ls)
if abs(got - want) > 1e-7 * (1 + want): REPRODUCED('Path.length(%r,%r)=%r for line lengths %r, expected %r' % (T0, T1, got, ls, want))

NOT_REPRODUCED()
