# replay of a solver counterexample against the real library (exit 1 = reproduces)
import sys, warnings
sys.path.insert(0, '/repo')
warnings.simplefilter('ignore')
import numpy as np
from svgpathtools import *
import svgpathtools
def close(a, b, rel=1e-7, ab=1e-9):
    return abs(a - b) <= ab + rel * max(abs(a), abs(b))
def REPRODUCED(msg):
    print('REPRODUCED:', msg); sys.exit(1)
def NOT_REPRODUCED(msg=''):
    print('not reproduced', msg); sys.exit(0)


ref = parse_path('M0,0 a25,25 -30 0,1 50,-25')
bad = []
for d in ('M0,0 a25,25 -30 01 50,-25', 'M0,0 a25,25 -30 0,150,-25', 'M0,0 a25,25 -30 0 150-25', 'M0,0 a25 25 -30 01 50-25'):
    try:
        p = parse_path(d)
        if p != ref: bad.append((d, p))
    except Exception as e:
        bad.append((d, repr(e)))
if bad:
    REPRODUCED('arc flags without separators: %r' % (bad[:2],))

NOT_REPRODUCED()
