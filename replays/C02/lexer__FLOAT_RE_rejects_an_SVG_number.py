# replay of a solver counterexample against the real library (exit 1 = reproduces)
import sys, warnings
sys.path.insert(0, '/tmp/sr/C02-m6')
warnings.simplefilter('ignore')
import numpy as np
from svgpathtools import *
import svgpathtools
def close(a, b, rel=1e-7, ab=1e-9):
    return abs(a - b) <= ab + rel * max(abs(a), abs(b))
def REPRODUCED(msg):
    print('REPRODUCED:', msg); sys.exit(1)
def NOT_REPRODUCED(msg=''):
    print('not reproduced', msg); sys.exit(0)


import svgpathtools.path as P
w = '.4E4'
import re
svgnum = re.compile(r"[-+]?(?:[0-9]*\.[0-9]+|[0-9]+)(?:[eE][-+]?[0-9]+)?")
if bool(P.FLOAT_RE.fullmatch(w)) != bool(svgnum.fullmatch(w)):
    REPRODUCED('FLOAT_RE and the SVG number grammar disagree on %r' % w)

NOT_REPRODUCED()
