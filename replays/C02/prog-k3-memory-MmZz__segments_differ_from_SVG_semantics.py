# replay of a solver counterexample against the real library (exit 1 = reproduces)
import sys, warnings
sys.path.insert(0, '/tmp/sr/C02-m5')
warnings.simplefilter('ignore')
import numpy as np
from svgpathtools import *
import svgpathtools
def close(a, b, rel=1e-7, ab=1e-9):
    return abs(a - b) <= ab + rel * max(abs(a), abs(b))
def REPRODUCED(msg):
    print('REPRODUCED:', msg); sys.exit(1)
def NOT_REPRODUCED(msg=''):
    print('not reproduced', msg); sys.exit(0)


d = 'M 0.0,0.0 C 0.0,0.0,-1.0,0.0,0.0,0.0 M 0.0,1.0 S 0.0,0.0,0.0,0.0'
ref = [('C', 0j, 0j, (-1+0j), 0j), ('C', 1j, 1j, 0j, 0j)]
try:
    p = parse_path(d)
except Exception as e:
    REPRODUCED('parse_path(%r) raises %r; SVG semantics: %r' % (d, e, ref))
def ok(r, s):
    k = r[0]
    if k == 'L': return isinstance(s, Line) and close(s.start, r[1]) and close(s.end, r[2])
    if k == 'C': return isinstance(s, CubicBezier) and all(close(a, b) for a, b in zip(s.bpoints(), r[1:]))
    if k == 'Q': return isinstance(s, QuadraticBezier) and all(close(a, b) for a, b in zip(s.bpoints(), r[1:]))
    if k == 'A':
        return isinstance(s, Arc) and close(s.start, r[1]) and close(s.end, r[7]) and s.large_arc == r[5] and s.sweep == r[6] \
            and close(s.rotation, r[4]) and (close(s.radius, complex(r[2], r[3])) or abs(s.radius) > abs(complex(r[2], r[3])))
if len(p) != len(ref) or not all(ok(r, s) for r, s in zip(ref, p)):
    REPRODUCED('parse_path(%r) = %r; SVG semantics: %r' % (d, p, ref))

NOT_REPRODUCED()
