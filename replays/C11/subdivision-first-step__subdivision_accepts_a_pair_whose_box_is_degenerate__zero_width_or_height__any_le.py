# replay of a solver counterexample against the real library (exit 1 = reproduces)
import sys, warnings
sys.path.insert(0, '/tmp/sr/C11-m3')
warnings.simplefilter('ignore')
import numpy as np
from svgpathtools import *
import svgpathtools
def close(a, b, rel=1e-7, ab=1e-9):
    return abs(a - b) <= ab + rel * max(abs(a), abs(b))
def REPRODUCED(msg):
    print('REPRODUCED:', msg); sys.exit(1)
def NOT_REPRODUCED(msg=''):
    print('not reproduced', msg); sys.exit(0)


# straight, axis-parallel Beziers: their boxes have zero area whatever their length
pairs = [(CubicBezier(0j, 3+0j, 6+0j, 10+0j), CubicBezier(2-1j, 2+2j, 2+5j, 2+9j)),
         (QuadraticBezier(0j, 5+0j, 40+0j), QuadraticBezier(30-1j, 30+1j, 30+9j)),
         (CubicBezier(1+1j, 1+4j, 1+5j, 1+20j), QuadraticBezier(-5+3j, 0+3j, 2+3j))]
for b1, b2 in pairs:
    for x, y in ((b1, b2), (b2, b1)):
        r = x.intersect(y)
        for t1, t2 in r:
            if abs(x.point(t1) - y.point(t2)) > 1e-3:
                REPRODUCED('%r.intersect(%r) = %r but point(t1) = %r, point(t2) = %r' % (x, y, r, x.point(t1), y.point(t2)))

NOT_REPRODUCED()
