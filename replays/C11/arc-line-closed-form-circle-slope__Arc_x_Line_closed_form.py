# replay of a solver counterexample against the real library (exit 1 = reproduces)
import sys, warnings
sys.path.insert(0, '/tmp/sr/C11-m4')
warnings.simplefilter('ignore')
import numpy as np
from svgpathtools import *
import svgpathtools
def close(a, b, rel=1e-7, ab=1e-9):
    return abs(a - b) <= ab + rel * max(abs(a), abs(b))
def REPRODUCED(msg):
    print('REPRODUCED:', msg); sys.exit(1)
def NOT_REPRODUCED(msg=''):
    print('not reproduced', msg); sys.exit(0)


import math
rot, rx, ry = (11.0, 2.0, 2.0)
arcs = [Arc(complex(-rx, 0) * complex(math.cos(math.radians(rot)), math.sin(math.radians(rot))) + 1+1j, complex(rx, ry), rot, la, sw,
            complex(0, ry) * complex(math.cos(math.radians(rot)), math.sin(math.radians(rot))) + 1+1j) for la in (0, 1) for sw in (0, 1)]
lines = [Line(-3-2j, 5+4j), Line(1-5j, 1+6j), Line(-4+1.5j, 6+1.5j), Line(0.2-4j, 2.5+5j), Line(4+3j, -3-1j)]
for arc in arcs:
    for ln in lines:
        for x, y, swap in ((arc, ln, False), (ln, arc, True)):
            try:
                r = x.intersect(y)
            except (ValueError, AssertionError):
                continue            # a refusal is tolerated
            for t1, t2 in r:
                ta, tl = (t2, t1) if swap else (t1, t2)
                if not (0 <= ta <= 1 and 0 <= tl <= 1) or abs(arc.point(ta) - ln.point(tl)) > 1e-3 * (1 + rx + ry):
                    REPRODUCED('%r.intersect(%r) = %r but arc.point(%r) = %r, line.point(%r) = %r' % (x, y, r, ta, arc.point(ta), tl, ln.point(tl)))
        # completeness on the unrotated arcs: crossings found by sampling
        if rot == 0:
            N = 4000; found = []
            prev = None
            for i in range(N + 1):
                p = arc.point(i / N) - ln.start; d = ln.end - ln.start
                sd = p.real * d.imag - p.imag * d.real
                lam = (p.real * d.real + p.imag * d.imag) / abs(d) ** 2
                if prev is not None and prev[0] * sd < 0 and 0.01 < lam < 0.99 and 0.01 < i / N < 0.99: found.append(i / N)
                if sd != 0: prev = (sd, i)
            got = arc.intersect(ln)
            for t in found:
                if not any(abs(t - g[0]) < 2e-3 for g in got):
                    REPRODUCED('%r crosses %r near arc parameter %r but intersect() = %r' % (arc, ln, t, got))

NOT_REPRODUCED()
