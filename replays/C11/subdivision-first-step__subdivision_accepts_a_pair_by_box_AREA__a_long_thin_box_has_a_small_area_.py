# replay of a solver counterexample against the real library (exit 1 = reproduces)
import sys, warnings
sys.path.insert(0, '/repo')
warnings.simplefilter('ignore')
import numpy as np
from svgpathtools import *
import svgpathtools
def close(a, b, rel=1e-7, ab=1e-9):
    return abs(a - b) <= ab + rel * max(abs(a), abs(b))
def REPRODUCED(msg):
    print('REPRODUCED:', msg); sys.exit(1)
def NOT_REPRODUCED(msg=''):
    print('not reproduced', msg); sys.exit(0)


b1 = CubicBezier(0j, 1+1e-13j, 2+0j, 3+0j)
b2 = CubicBezier(0.3-1j, 0.3+1e-13-0.3j, 0.3+1j, 0.3+3j)
r = b1.intersect(b2)
for t1, t2 in r:
    if abs(b1.point(t1) - b2.point(t2)) > 1e-3:
        REPRODUCED('%r.intersect(%r) = %r but point(t1) = %r, point(t2) = %r' % (b1, b2, r, b1.point(t1), b2.point(t2)))

NOT_REPRODUCED()
