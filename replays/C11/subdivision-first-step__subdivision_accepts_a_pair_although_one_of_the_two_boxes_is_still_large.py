# replay of a solver counterexample against the real library (exit 1 = reproduces)
import sys, warnings
sys.path.insert(0, '/tmp/sr/C11-m6')
warnings.simplefilter('ignore')
import numpy as np
from svgpathtools import *
import svgpathtools
def close(a, b, rel=1e-7, ab=1e-9):
    return abs(a - b) <= ab + rel * max(abs(a), abs(b))
def REPRODUCED(msg):
    print('REPRODUCED:', msg); sys.exit(1)
def NOT_REPRODUCED(msg=''):
    print('not reproduced', msg); sys.exit(0)


# crossings where one of the two curves has an axis-parallel tangent (its sub-boxes get flat quickly) while the other passes obliquely
def through(p0, p2, s, pt):
    c = (pt - (1 - s)**2*p0 - s**2*p2)/(2*s*(1 - s)); return QuadraticBezier(p0, c, p2)
s_curve = CubicBezier(-0.256j, 1 + 0.384j, 2 - 0.576j, 3 + 0.864j)          # x = 3t, y = 4(t-0.4)^3: flat inflection at (1.2, 0)
flat_pt = 1.2 + 0j
pairs = [(s_curve, through(flat_pt - 0.9 - 1.2j, flat_pt + 0.93 + 1.41j, 0.37, flat_pt), flat_pt)]
par = QuadraticBezier(0j, 1 + 2j, 2 + 0j)                                    # apex (1, 1) at t = 0.5
pairs.append((par, through(0.31 - 0.2j, 1.77 + 2.3j, 0.41, 1 + 1j), 1 + 1j))
for a, b, where in pairs:
    size = max(abs(z) for s_ in (a, b) for z in s_.bpoints()) + 1
    for x, y in ((a, b), (b, a)):
        for t1, t2 in x.intersect(y):
            d = abs(x.point(t1) - y.point(t2))
            if d > 1e-5 * size or abs(x.point(t1) - where) > 1e-5 * size:
                REPRODUCED('%r.intersect(%r) reports (%r, %r): the points are %r apart, %r from the crossing %r' % (x, y, t1, t2, d, abs(x.point(t1) - where), where))

NOT_REPRODUCED()
