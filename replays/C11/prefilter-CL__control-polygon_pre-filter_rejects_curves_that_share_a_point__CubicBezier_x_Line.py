# replay of a solver counterexample against the real library (exit 1 = reproduces)
import sys, warnings
sys.path.insert(0, '/repo')
warnings.simplefilter('ignore')
import numpy as np
from svgpathtools import *
import svgpathtools
def close(a, b, rel=1e-7, ab=1e-9):
    return abs(a - b) <= ab + rel * max(abs(a), abs(b))
def REPRODUCED(msg):
    print('REPRODUCED:', msg); sys.exit(1)
def NOT_REPRODUCED(msg=''):
    print('not reproduced', msg); sys.exit(0)


import itertools
a = [(1-8j), -8j, (-8-8j), (-8-8j)]; b = [(-8-8j), (-8+0j)]
A = bpoints2bezier(a); B = bpoints2bezier(b)
# do the curves share a point?  (dense search + refinement)
best = None
for i in range(401):
    for j in range(401):
        d = abs(A.point(i / 400) - B.point(j / 400))
        if best is None or d < best[0]: best = (d, i / 400, j / 400)
if best[0] < 1e-2:
    try:
        r = A.intersect(B)
    except AssertionError:
        NOT_REPRODUCED()
    if r == []:
        REPRODUCED('%r and %r come within %r of each other (t=%r,u=%r) but intersect() returned [] ' % (A, B, best[0], best[1], best[2]))

NOT_REPRODUCED()
