# replay of a solver counterexample against the real library (exit 1 = reproduces)
import sys, warnings
sys.path.insert(0, '/tmp/sr/adhoc')
warnings.simplefilter('ignore')
import numpy as np
from svgpathtools import *
import svgpathtools
def close(a, b, rel=1e-7, ab=1e-9):
    return abs(a - b) <= ab + rel * max(abs(a), abs(b))
def REPRODUCED(msg):
    print('REPRODUCED:', msg); sys.exit(1)
def NOT_REPRODUCED(msg=''):
    print('not reproduced', msg); sys.exit(0)


import math
rx, ry, cx, cy, theta, delta, alpha = (2.0, 1.0, -0.0018035180351803517, -0.0018035180351803517, -179.99819946289062, -236.0, -539.9981994628905)
def pt(a):
    a = math.radians(a); return complex(cx + rx * math.cos(a), cy + ry * math.sin(a))
arc = Arc(pt(theta), complex(rx, ry), 0, abs(delta) > 180, delta > 0, pt(theta + delta))
if abs(arc.delta - delta) > 1e-6 or abs(arc.radius - complex(rx, ry)) > 1e-9:
    print('constructor did not reproduce the arc', arc.theta, arc.delta); raise SystemExit(0)
for al in [alpha] + [theta + delta * i / 97 for i in range(1, 97)] + [theta - 7.0, theta + delta + 9.0]:
    p = pt(al)
    t = arc.point_to_t(p)
    ts = [(al + 360 * j - arc.theta) / arc.delta for j in (-2, -1, 0, 1, 2)]
    inside = [u for u in ts if 1e-4 < u < 1 - 1e-4]
    if t is None:
        if inside: REPRODUCED('%r.point_to_t(%r) = None but the point is point(%r)' % (arc, p, inside[0]))
    else:
        if not (0 <= t <= 1) or abs(arc.point(t) - p) > 1e-4 * (1 + rx + ry):
            REPRODUCED('%r.point_to_t(%r) = %r but point(t) = %r' % (arc, p, t, arc.point(t)))

NOT_REPRODUCED()
