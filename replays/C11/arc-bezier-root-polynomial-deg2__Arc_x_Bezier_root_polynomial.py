# replay of a solver counterexample against the real library (exit 1 = reproduces)
import sys, warnings
sys.path.insert(0, '/tmp/sr/adhoc')
warnings.simplefilter('ignore')
import numpy as np
from svgpathtools import *
import svgpathtools
def close(a, b, rel=1e-7, ab=1e-9):
    return abs(a - b) <= ab + rel * max(abs(a), abs(b))
def REPRODUCED(msg):
    print('REPRODUCED:', msg); sys.exit(1)
def NOT_REPRODUCED(msg=''):
    print('not reproduced', msg); sys.exit(0)


import math
curves = [Line(-3-2j, 5+4j), QuadraticBezier(-2-2j, 1+6j, 4-2j), CubicBezier(-3+0j, 0+4j, 2-4j, 5+1j)]
for rot in (30, -75, 110):
    for la in (0, 1):
        arc = Arc(0j, 2+1j, rot, la, 1, 3+1j)
        for cv in curves:
            r = arc.intersect(cv)
            for t1, t2 in r:
                if not (0 <= t1 <= 1 and 0 <= t2 <= 1) or abs(arc.point(t1) - cv.point(t2)) > 1e-3:
                    REPRODUCED('%r.intersect(%r) = %r: points %r / %r' % (arc, cv, r, arc.point(t1), cv.point(t2)))
            def f(z):
                w = (z - arc.center) / arc.rot_matrix
                return (w.real / arc.radius.real) ** 2 + (w.imag / arc.radius.imag) ** 2 - 1
            N = 2000; pts = [arc.point(i / N) for i in range(N + 1)]
            M = 2000; pv = f(cv.point(0))
            for i in range(1, M + 1):
                cur = f(cv.point(i / M))
                if pv * cur < 0:
                    z = cv.point((i - .5) / M)
                    k = min(range(N + 1), key=lambda k_: abs(z - pts[k_]))
                    if abs(z - pts[k]) < 5e-3 and 0.01 < k / N < 0.99 and 0.01 < (i - .5) / M < 0.99:
                        if not any(abs(a - k / N) < 5e-3 and abs(b - (i - .5) / M) < 5e-3 for a, b in r):
                            REPRODUCED('%r crosses %r near arc parameter %r but intersect() = %r' % (arc, cv, k / N, r))
                if cur != 0: pv = cur

NOT_REPRODUCED()
