# replay of a solver counterexample against the real library (exit 1 = reproduces)
import sys, warnings
sys.path.insert(0, '/tmp/sr/adhoc')
warnings.simplefilter('ignore')
import numpy as np
from svgpathtools import *
import svgpathtools
def close(a, b, rel=1e-7, ab=1e-9):
    return abs(a - b) <= ab + rel * max(abs(a), abs(b))
def REPRODUCED(msg):
    print('REPRODUCED:', msg); sys.exit(1)
def NOT_REPRODUCED(msg=''):
    print('not reproduced', msg); sys.exit(0)


import math
c0, r0, c1, r1 = ((-4-2j), 1.0, (-4-4j), 1.0000009536743164)
def circ(c, r, a0, a1, sweep):
    p = lambda a: c + r * complex(math.cos(math.radians(a)), math.sin(math.radians(a)))
    d = (a1 - a0) % 360 if sweep else -((a0 - a1) % 360)
    return Arc(p(a0), complex(r, r), 0, abs(d) > 180, sweep, p(a1))
for (a0, a1, s0) in ((10, 200, True), (200, 10, False), (-100, 95, True), (60, 300, True)):
    for (b0, b1, s1) in ((170, 20, True), (30, 220, True), (250, 80, False), (-30, 185, True)):
        A, B = circ(c0, r0, a0, a1, s0), circ(c1, r1, b0, b1, s1)
        try:
            r = A.intersect(B)
        except AssertionError as e:
            REPRODUCED('%r.intersect(%r) failed its own assertion' % (A, B))
        for t1, t2 in r:
            if not (0 <= t1 <= 1 and 0 <= t2 <= 1) or abs(A.point(t1) - B.point(t2)) > 1e-3 * (1 + r0 + r1):
                REPRODUCED('%r.intersect(%r) = %r: points %r / %r' % (A, B, r, A.point(t1), B.point(t2)))
        # completeness by sampling A against the circle of B
        N = 3000; prev = None
        for i in range(N + 1):
            z = A.point(i / N); f = abs(z - c1) - r1
            if prev is not None and prev[0] * f < 0 and 0.01 < i / N < 0.99:
                lo, hi, flo = prev[1] / N, i / N, prev[0]
                for _ in range(60):                      # bisection: the crossing itself, not a sample near it
                    mid = (lo + hi) / 2; fm = abs(A.point(mid) - c1) - r1
                    if flo * fm <= 0: hi = mid
                    else: lo, flo = mid, fm
                ta = (lo + hi) / 2; z = A.point(ta)
                d1 = (z - c1) / r1; ang = math.degrees(math.atan2(d1.imag, d1.real))
                tbs = [(ang + 360 * j - B.theta) / B.delta for j in (-2, -1, 0, 1, 2)]
                if any(0.01 < tb < 0.99 for tb in tbs) and not any(abs(t1 - ta) < 5e-3 for t1, t2 in r):
                    REPRODUCED('%r crosses %r at parameter %r but intersect() = %r' % (A, B, ta, r))
            if f != 0: prev = (f, i)

NOT_REPRODUCED()
