# replay of a solver counterexample against the real library (exit 1 = reproduces)
import sys, warnings
sys.path.insert(0, '/tmp/sr/C11-m5')
warnings.simplefilter('ignore')
import numpy as np
from svgpathtools import *
import svgpathtools
def close(a, b, rel=1e-7, ab=1e-9):
    return abs(a - b) <= ab + rel * max(abs(a), abs(b))
def REPRODUCED(msg):
    print('REPRODUCED:', msg); sys.exit(1)
def NOT_REPRODUCED(msg=''):
    print('not reproduced', msg); sys.exit(0)


arcs = [Arc(0j, 2+1j, 0, 0, 1, 3+1j), Arc(0j, 2+1j, 30, 1, 0, 3+1j), Arc(1+1j, 2+2j, 0, 0, 0, 3+1j), Arc(-1+0j, 1.5+1j, -40, 1, 1, 1.5+0.5j)]
bezs = [QuadraticBezier(-2-2j, 1+6j, 4-2j), CubicBezier(-3+0j, 0+4j, 2-4j, 5+1j), QuadraticBezier(0-3j, 3+1j, 0+4j), CubicBezier(-2+2j, 6+2j, -3-2j, 4-1j),
        Line(-3-2j, 5+4j)]
for arc in arcs:
    for bz in bezs:
        if isinstance(bz, Line) and arc.rotation == 0: continue
        for x, y, swap in ((arc, bz, False), (bz, arc, True)):
            try:
                r = x.intersect(y)
            except (ValueError, AssertionError):
                continue
            for t1, t2 in r:
                ta, tb = (t2, t1) if swap else (t1, t2)
                if not (0 <= ta <= 1 and 0 <= tb <= 1) or abs(arc.point(ta) - bz.point(tb)) > 1e-3 * 8:
                    REPRODUCED('%r.intersect(%r) = %r but arc.point(%r) = %r, other.point(%r) = %r' % (x, y, r, ta, arc.point(ta), tb, bz.point(tb)))

NOT_REPRODUCED()
