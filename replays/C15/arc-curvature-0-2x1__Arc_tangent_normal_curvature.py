# replay of a solver counterexample against the real library (exit 1 = reproduces)
import sys, warnings
sys.path.insert(0, '/tmp/sr/C15-m6')
warnings.simplefilter('ignore')
import numpy as np
from svgpathtools import *
import svgpathtools
def close(a, b, rel=1e-7, ab=1e-9):
    return abs(a - b) <= ab + rel * max(abs(a), abs(b))
def REPRODUCED(msg):
    print('REPRODUCED:', msg); sys.exit(1)
def NOT_REPRODUCED(msg=''):
    print('not reproduced', msg); sys.exit(0)


import math
arcs = [Arc(0j, (2+1j), 0.0, 0, 1, 1.5+1j), Arc(0j, (1+2j), 0.0, 1, 0, 1.5+1j), Arc(1+1j, 3+1j, 30.0, 1, 1, 2+2j), Arc(1+1j, 1+2j, -70.0, 0, 1, 2+2j)]
for arc in arcs:
    for t in (-1.0, 0.0, 0.3, 0.5, 1.0):
        if not 0 <= t <= 1: continue
        d1, d2 = arc.derivative(t, 1), arc.derivative(t, 2)
        want = abs(d1.real * d2.imag - d1.imag * d2.real) / abs(d1) ** 3
        got = arc.curvature(t)
        ut = arc.unit_tangent(t)
        if abs(got - want) > 1e-7 * (1 + want):
            REPRODUCED('%r.curvature(%r) = %r but the cross-product formula on derivative(t,1), derivative(t,2) gives %r' % (arc, t, got, want))
        if abs(ut - d1 / abs(d1)) > 1e-9 or abs(arc.normal(t) - (-1j) * d1 / abs(d1)) > 1e-9:
            REPRODUCED('%r: unit_tangent(%r) = %r, normal = %r, derivative direction %r' % (arc, t, ut, arc.normal(t), d1 / abs(d1)))

NOT_REPRODUCED()
