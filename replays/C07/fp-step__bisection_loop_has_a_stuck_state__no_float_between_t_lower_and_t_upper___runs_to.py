# replay of a solver counterexample against the real library (exit 1 = reproduces)
import sys, warnings
sys.path.insert(0, '/repo')
warnings.simplefilter('ignore')
import numpy as np
from svgpathtools import *
import svgpathtools
def close(a, b, rel=1e-7, ab=1e-9):
    return abs(a - b) <= ab + rel * max(abs(a), abs(b))
def REPRODUCED(msg):
    print('REPRODUCED:', msg); sys.exit(1)
def NOT_REPRODUCED(msg=''):
    print('not reproduced', msg); sys.exit(0)


import math
bad = []
for scale in (1e4, 3e5, 1e6):
    for seg in (CubicBezier(0j, scale*(1+1j), scale*(2+0j), scale*(3+1j)), QuadraticBezier(0j, scale*(1+2j), scale*(3+0j))):
        L = seg.length()
        for frac in (1/3.0, 0.5, 0.77):
            try:
                t = seg.ilength(frac * L)
                if not 0 <= t <= 1: bad.append((seg, frac, t))
            except Exception as e:
                bad.append((seg, frac, repr(e)[:80]))
if bad: REPRODUCED('ilength does not return for large curves: %r' % (bad[:2],))

NOT_REPRODUCED()
