# replay of a solver counterexample against the real library (exit 1 = reproduces)
import sys, warnings
sys.path.insert(0, '/tmp/sr/C07-m6')
warnings.simplefilter('ignore')
import numpy as np
from svgpathtools import *
import svgpathtools
def close(a, b, rel=1e-7, ab=1e-9):
    return abs(a - b) <= ab + rel * max(abs(a), abs(b))
def REPRODUCED(msg):
    print('REPRODUCED:', msg); sys.exit(1)
def NOT_REPRODUCED(msg=''):
    print('not reproduced', msg); sys.exit(0)


ls = [5.0, 5.0, 5.0]; dup = {0: 0, 1: 0, 2: 0}; frac = 0.4
segs = []
for i, l in enumerate(ls):
    if i in dup and dup[i] < i:
        segs.append(Line(segs[dup[i]].start, segs[dup[i]].end))          # an equal copy of an earlier segment
    else:
        segs.append(Line(complex(0, i), complex(l, i)))
ls = [s.length() for s in segs]
p = Path(*segs)
L = p.length(); s = frac * L
try:
    T = p.ilength(s)
except Exception as e:
    REPRODUCED('Path.ilength(%r) raised %r (L=%r)' % (s, e, L))
if not 0 <= T <= 1: REPRODUCED('T outside [0,1]')
# arc length from 0 to T must be s (lines: exact up to rounding)
acc = 0.0; tot = sum(ls); want = None
for i, l in enumerate(ls):
    if acc <= s <= acc + l:
        want = (acc + (s - acc)) / tot; break
    acc += l
if abs(T - s / tot) > 1e-9: REPRODUCED('Path.ilength(%r) = %r but the arc length fraction is %r (segments %r)' % (s, T, s / tot, segs))

NOT_REPRODUCED()
