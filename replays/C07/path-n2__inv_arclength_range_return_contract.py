# replay of a solver counterexample against the real library (exit 1 = reproduces)
import sys, warnings
sys.path.insert(0, '/repo')
warnings.simplefilter('ignore')
import numpy as np
from svgpathtools import *
import svgpathtools
def close(a, b, rel=1e-7, ab=1e-9):
    return abs(a - b) <= ab + rel * max(abs(a), abs(b))
def REPRODUCED(msg):
    print('REPRODUCED:', msg); sys.exit(1)
def NOT_REPRODUCED(msg=''):
    print('not reproduced', msg); sys.exit(0)


seg = CubicBezier(0j, 30+90j, 70-60j, 100+10j)
L = seg.length()
s = 0.003 * L
for curve in (seg, Line(0j, 3+4j), Line(0j, 0.003+0.004j), QuadraticBezier(0j, 5+5j, 10+0j), Path(Line(0j, 1+0j), seg.translated(1)), Arc(0j, 2+1j, 10.0, False, True, 2+1j)):
  import math
  Lc = curve.length()
  for sc in (0.003 * Lc, math.nextafter(Lc, math.inf), -5e-324, Lc * (1 + 1e-15), Lc + 5e-13):
    try:
        t = curve.ilength(sc)
        raised = False
    except ValueError:
        raised = True
    except Exception as e:
        REPRODUCED('ilength(%r) on %r raised %r' % (sc, curve, e))
    if raised != (not (0 <= sc <= Lc)):
        REPRODUCED('%r.ilength(%r): ValueError raised=%r but L=%r' % (curve, sc, raised, Lc))
    if not raised and not (0 <= t <= 1): REPRODUCED('ilength returned %r outside [0,1]' % t)

NOT_REPRODUCED()
