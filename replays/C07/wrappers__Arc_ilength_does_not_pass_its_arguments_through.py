# replay of a solver counterexample against the real library (exit 1 = reproduces)
import sys, warnings
sys.path.insert(0, '/tmp/sr/C07-m5')
warnings.simplefilter('ignore')
import numpy as np
from svgpathtools import *
import svgpathtools
def close(a, b, rel=1e-7, ab=1e-9):
    return abs(a - b) <= ab + rel * max(abs(a), abs(b))
def REPRODUCED(msg):
    print('REPRODUCED:', msg); sys.exit(1)
def NOT_REPRODUCED(msg=''):
    print('not reproduced', msg); sys.exit(0)


import svgpathtools.path as P
name = 'Arc'
objs = {'Line': Line(0j, 3+4j), 'QuadraticBezier': QuadraticBezier(0j, 5+5j, 10+0j), 'CubicBezier': CubicBezier(0j, 30+90j, 70-60j, 100+10j),
        'Arc': Arc(0j, 2+2j, 0, False, True, 2+2j), 'Path': Path(Line(0j, 3+4j))}
o = objs[name]
rec = {}
real = P.inv_arclength
def spy(curve, s, s_tol=None, maxits=None, error=None, min_depth=None):
    rec.update(s=s, s_tol=s_tol, maxits=maxits, error=error, min_depth=min_depth)
    return real(curve, s, **{k: v for k, v in dict(s_tol=s_tol, maxits=maxits, error=error, min_depth=min_depth).items() if v is not None})
P.inv_arclength = spy
try:
    o.ilength(o.length() / 3, s_tol=1e-15, maxits=77, error=1e-12, min_depth=3)
finally:
    P.inv_arclength = real
if rec.get('s_tol') != 1e-15 or rec.get('error') != 1e-12 or rec.get('maxits') != 77 or rec.get('min_depth') != 3:
    REPRODUCED('%s.ilength(s, s_tol=1e-15, maxits=77, error=1e-12, min_depth=3) calls inv_arclength with %r' % (name, rec))

NOT_REPRODUCED()
