# replay of a solver counterexample against the real library (exit 1 = reproduces)
import sys, warnings
sys.path.insert(0, '/tmp/sr/C13-m6')
warnings.simplefilter('ignore')
import numpy as np
from svgpathtools import *
import svgpathtools
def close(a, b, rel=1e-7, ab=1e-9):
    return abs(a - b) <= ab + rel * max(abs(a), abs(b))
def REPRODUCED(msg):
    print('REPRODUCED:', msg); sys.exit(1)
def NOT_REPRODUCED(msg=''):
    print('not reproduced', msg); sys.exit(0)


from math import comb
from fractions import Fraction as F
def cF(z): return (F(z.real), F(z.imag))
def bernF(ps, t):
    n = len(ps)-1; t = F(t); x = F(0); y = F(0)
    for i,p in enumerate(ps):
        w = comb(n,i)*(1-t)**(n-i)*t**i
        x += w*F(p.real); y += w*F(p.imag)
    return complex(float(x), float(y))
def derivF(ps, t, k):
    n = len(ps)-1; t = F(t)
    cs = []
    for j in range(n+1):
        cx = F(0); cy = F(0)
        for i in range(j+1):
            w = comb(n,j)*comb(j,i)*(-1)**(i+j)
            cx += w*F(ps[i].real); cy += w*F(ps[i].imag)
        cs.append((cx,cy))
    for _ in range(k):
        cs = [(c[0]*j, c[1]*j) for j,c in enumerate(cs)][1:]
    x = sum((c[0]*t**j for j,c in enumerate(cs)), F(0)); y = sum((c[1]*t**j for j,c in enumerate(cs)), F(0))
    return complex(float(x), float(y))

ps = [(-2+8j), (-1-1j)]; z = (7+9j); u = 0.0
seg = bpoints2bezier(ps)
(dmin, tmin), (dmax, tmax) = seg.radialrange(z)
eps = 1e-7 * (1 + max(abs(p) for p in ps) + abs(z))
if not (0 <= tmin <= 1 and 0 <= tmax <= 1): REPRODUCED('t outside [0,1]: %r %r' % (tmin, tmax))
if abs(dmin - abs(seg.point(tmin) - z)) > eps or abs(dmax - abs(seg.point(tmax) - z)) > eps: REPRODUCED('d != |point(t)-z|')
for uu in [u] + [i / 2000.0 for i in range(2001)]:
    if not 0 <= uu <= 1: continue
    d = abs(bernF(ps, uu) - z)
    if d < dmin - eps or d > dmax + eps:
        REPRODUCED('radialrange(%r) of %r = %r but point(%r) is at distance %r' % (z, seg, ((dmin, tmin), (dmax, tmax)), uu, d))

NOT_REPRODUCED()
