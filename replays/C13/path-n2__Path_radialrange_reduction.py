# replay of a solver counterexample against the real library (exit 1 = reproduces)
import sys, warnings
sys.path.insert(0, '/tmp/sr/C13-m5')
warnings.simplefilter('ignore')
import numpy as np
from svgpathtools import *
import svgpathtools
def close(a, b, rel=1e-7, ab=1e-9):
    return abs(a - b) <= ab + rel * max(abs(a), abs(b))
def REPRODUCED(msg):
    print('REPRODUCED:', msg); sys.exit(1)
def NOT_REPRODUCED(msg=''):
    print('not reproduced', msg); sys.exit(0)


segs = [(0j, (1.529684374568977+1.288435374475382j)), ((-0+0j), (-0.8322936730942848+1.8185948536513634j))]
z = 0j
p = Path(*[Line(a, b) for a, b in segs])
(dmin, tmin, kmin), (dmax, tmax, kmax) = p.radialrange(z)
per = [s.radialrange(z) for s in p]
gmin = min(r[0][0] for r in per); gmax = max(r[1][0] for r in per)
if kmin is None or kmax is None: REPRODUCED('no segment index returned: %r' % (p.radialrange(z),))
if abs(dmin - gmin) > 1e-9 or abs(dmax - gmax) > 1e-9: REPRODUCED('path radialrange %r but per-segment extremes are %r / %r' % (p.radialrange(z), gmin, gmax))
if abs(abs(p[kmin].point(tmin) - z) - dmin) > 1e-9 or abs(abs(p[kmax].point(tmax) - z) - dmax) > 1e-9: REPRODUCED('index/t do not attain the distance')
if closest_point_in_path(z, p) != p.radialrange(z)[0] or farthest_point_in_path(z, p) != p.radialrange(z)[1]: REPRODUCED('closest/farthest_point_in_path disagree')
# the same reduction on paths that contain closed loops (start == end) and exactly-on-path query points
loop = CubicBezier(10+0j, 16+6j, 4+6j, 10+0j)
for q_, zz in ((Path(Line(0j, 10+0j), loop, Line(10+0j, 20+0j)), 10+5j), (Path(loop), 10+9j), (Path(Line(0j, 4+0j), Line(4+0j, 4+30j)), 4+0j)):
    (a, ta, ka), (b, tb, kb) = q_.radialrange(zz)
    per = [s_.radialrange(zz) for s_ in q_]
    if ka is None or kb is None or abs(a - min(r_[0][0] for r_ in per)) > 1e-9 or abs(b - max(r_[1][0] for r_ in per)) > 1e-9:
        REPRODUCED('Path.radialrange(%r) of %r = %r; per-segment results %r' % (zz, q_, q_.radialrange(zz), per))

NOT_REPRODUCED()
