# replay of a solver counterexample against the real library (exit 1 = reproduces)
import sys, warnings
sys.path.insert(0, '/repo')
warnings.simplefilter('ignore')
import numpy as np
from svgpathtools import *
import svgpathtools
def close(a, b, rel=1e-7, ab=1e-9):
    return abs(a - b) <= ab + rel * max(abs(a), abs(b))
def REPRODUCED(msg):
    print('REPRODUCED:', msg); sys.exit(1)
def NOT_REPRODUCED(msg=''):
    print('not reproduced', msg); sys.exit(0)


segs = [(0j, (0.7648421872844885+0.644217687237691j)), ((-0+0j), (-0.8322936730942848+1.8185948536513634j))]
z = 0j
p = Path(*[Line(a, b) for a, b in segs])
(dmin, tmin, kmin), (dmax, tmax, kmax) = p.radialrange(z)
per = [s.radialrange(z) for s in p]
gmin = min(r[0][0] for r in per); gmax = max(r[1][0] for r in per)
if kmin is None or kmax is None: REPRODUCED('no segment index returned: %r' % (p.radialrange(z),))
if abs(dmin - gmin) > 1e-9 or abs(dmax - gmax) > 1e-9: REPRODUCED('path radialrange %r but per-segment extremes are %r / %r' % (p.radialrange(z), gmin, gmax))
if abs(abs(p[kmin].point(tmin) - z) - dmin) > 1e-9 or abs(abs(p[kmax].point(tmax) - z) - dmax) > 1e-9: REPRODUCED('index/t do not attain the distance')
if closest_point_in_path(z, p) != p.radialrange(z)[0] or farthest_point_in_path(z, p) != p.radialrange(z)[1]: REPRODUCED('closest/farthest_point_in_path disagree')

NOT_REPRODUCED()
