#!/bin/sh
# Idempotent offline bootstrap of the overlay venv used by every check.
# /verif/.venv = /venv's python + /venv's site-packages (numpy, scipy, svgwrite)
#               + z3-solver and cvc5 from the offline wheelhouse.
# /repo is NOT put on the path here: vf/main.py inserts it so that the
# encoding is always regenerated from /repo's current working tree.
set -e
V="$(cd "$(dirname "$0")" && pwd)/.venv"
if [ ! -x "$V/bin/python" ] || ! "$V/bin/python" -c "import z3, numpy, sympy" >/dev/null 2>&1; then
  rm -rf "$V"
  /venv/bin/python -m venv "$V"
  SP=$("$V/bin/python" -c "import sysconfig; print(sysconfig.get_paths()['purelib'])")
  echo "import site; site.addsitedir('/venv/lib/python3.12/site-packages')" > "$SP/_venv_overlay.pth"
  PIP_NO_INDEX=1 "$V/bin/python" -m pip install -q --no-index --find-links /opt/veriftools/wheels z3-solver cvc5 sympy >/dev/null 2>&1 || \
  PIP_NO_INDEX=1 "$V/bin/python" -m pip install -q --no-index --find-links /opt/veriftools/wheels z3-solver
fi
"$V/bin/python" -c "import z3, numpy, scipy" 
