"""entry point:  python -m vf.main C03 --tier quick"""
import argparse
import importlib
import os
import subprocess
import sys
import warnings


def main():
    ap = argparse.ArgumentParser()
    ap.add_argument('prop')
    ap.add_argument('--tier', default=os.environ.get('VERIF_TIER', 'quick'),
                    choices=['quick', 'thorough'])
    ap.add_argument('--replay', default=None)
    ap.add_argument('--only', default=None, help='comma list of family-name substrings')
    a = ap.parse_args()
    repo = os.environ.get('VERIF_REPO', '/repo')
    if a.replay:
        sys.exit(subprocess.call(['/venv/bin/python', a.replay]))
    # the encoding is regenerated from /repo's working tree on every run:
    sys.path.insert(0, repo)
    warnings.simplefilter('ignore')
    import svgpathtools
    assert os.path.abspath(svgpathtools.__file__).startswith(os.path.abspath(repo)), svgpathtools.__file__
    from . import runner
    seed = int(os.environ.get('VERIF_SEED', '0') or 0)
    mod = importlib.import_module('vf.props.' + a.prop.lower())
    fams = mod.families(a.tier)
    if a.only:
        keys = a.only.split(',')
        fams = [f for f in fams if any(k in f[0] for k in keys)]
    sys.exit(runner.run_property(a.prop.upper(), a.tier, seed, fams, mod.META))


if __name__ == '__main__':
    main()
