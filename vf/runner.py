"""Runner: executes the obligation families of one property on all cores,
replays candidate counterexamples against the real library in a fresh
interpreter, classifies them against known_findings.txt, writes evidence."""
import hashlib
import json
import multiprocessing as mp
import os
import subprocess
import sys
import time
import traceback

import z3

from . import symx
from . import stubs  # noqa: F401  (installs the sequential trim_zeros)
from . import ang  # noqa: F401  (installs SR.radians / SR.arccos)

VERIF = os.path.dirname(os.path.dirname(os.path.abspath(__file__)))
REPO = os.environ.get('VERIF_REPO', '/repo')
REPLAY_PY = '/venv/bin/python'
EXIT_OK, EXIT_VIOLATION, EXIT_HARNESS = 0, 1, 3

PRELUDE = '''# replay of a solver counterexample against the real library (exit 1 = reproduces)
import sys, warnings
sys.path.insert(0, %r)
warnings.simplefilter('ignore')
import numpy as np
from svgpathtools import *
import svgpathtools
def close(a, b, rel=1e-7, ab=1e-9):
    return abs(a - b) <= ab + rel * max(abs(a), abs(b))
def REPRODUCED(msg):
    print('REPRODUCED:', msg); sys.exit(1)
def NOT_REPRODUCED(msg=''):
    print('not reproduced', msg); sys.exit(0)
'''


class Report:
    """collects what one family did (lives in the worker process)."""

    def __init__(self, prop, family, tier):
        self.prop, self.family, self.tier = prop, family, tier
        self.paths = 0
        self.nontrivial = 0
        self.obligations = 0
        self.discharged = 0
        self.inconclusive = []
        self.cex = []           # confirmed (replayed) counterexamples
        self.spurious = []      # sat but not reproduced
        self.errors = []
        self.samples = []
        self.solver_time = 0.0
        self.feas_queries = 0
        self.unknown_feas = 0
        self.witnesses = 0
        self.vacuous = []
        self.stubs = set()
        self.bounds = {}
        self.incomplete = []
        self.cvc5_checked = 0
        self.cvc5_disagree = []
        self._seen_cls = set()
        self._failed_cls = {}
        self.sat_same_class = 0

    # -- bookkeeping ---------------------------------------------------
    def path(self, ctx, nontrivial=None):
        self.paths += 1
        self.feas_queries += ctx.nq
        self.solver_time += ctx.tq
        self.unknown_feas += ctx.unknown_feas
        if nontrivial is None:
            nontrivial = any(d[1] for d in ctx.decisions[:ctx.pos]) or ctx.pos > 0
        if nontrivial:
            self.nontrivial += 1
        self._progress()

    def _send(self, kind, payload):
        conn = getattr(self, '_conn', None)
        if conn is not None:
            try:
                conn.send((kind, payload))
            except Exception:
                pass

    def _progress(self):
        now = time.time()
        if now - getattr(self, '_last_progress', 0) > 2.0:
            self._last_progress = now
            self._send('progress', {k: getattr(self, k) for k in (
                'paths', 'nontrivial', 'obligations', 'discharged', 'witnesses', 'solver_time', 'feas_queries')})

    def sample(self, obj):
        if len(self.samples) < 4:
            self.samples.append(_short(obj))

    def stub(self, *names):
        self.stubs.update(names)

    def bound(self, **kw):
        self.bounds.update(kw)

    def error(self, msg):
        self.errors.append(msg)

    def unexpected(self, ctx, msg, timeout_ms=15000):
        """an exception / result that must not occur on a feasible path: only an
        error if the path condition is really satisfiable (paths entered through
        an 'unknown' feasibility answer may be infeasible)."""
        r, dt, m = symx.check_sat(ctx, (), timeout_ms)
        self.solver_time += dt
        if r == 'sat':
            self.errors.append(msg)
        elif r == 'unknown':
            self.inconclusive.append('path-feasibility-unknown: ' + msg[:80])
        return r

    def incomplete_note(self, msg):
        self.incomplete.append(msg)

    # -- obligations ---------------------------------------------------
    def witness(self, ctx, name, extra=(), timeout_ms=20000):
        """reachability twin: the hypotheses of an obligation are satisfiable."""
        r, dt, m = symx.check_sat(ctx, extra, timeout_ms)
        self.solver_time += dt
        if r == 'sat':
            self.witnesses += 1
        elif r == 'unsat':
            self.vacuous.append(name)
        return r, m

    def ob(self, name, ctx, claim, extra=(), timeout_ms=20000, cex=None,
           robust=None, cvc5_too=False, tries=3):
        """Obligation  pc /\\ extra => claim.
        cex(model) -> dict(cls=..., inputs=..., script=...) or None renders a
        candidate counterexample as a replay script."""
        self.obligations += 1
        if isinstance(claim, symx.SB):
            claim = claim.e
        if isinstance(claim, bool):
            claim = z3.BoolVal(claim)
        r, dt, m = symx.prove(ctx, claim, timeout_ms, extra)
        self.solver_time += dt
        if r == 'unsat':
            self.discharged += 1
            if cvc5_too:
                self._cvc5(name, ctx, claim, extra, timeout_ms)
            return 'unsat'
        if r == 'unknown':
            self.inconclusive.append(name)
            return 'unknown'
        # sat: candidate.  Try a robust model first (violation with margin).
        models = []
        if robust is not None:
            r2, dt2, m2 = symx.prove(ctx, z3.BoolVal(False), timeout_ms,
                                     list(extra) + list(robust))
            self.solver_time += dt2
            if r2 == 'sat':
                models.append(m2)
        models.append(m)
        if cex is None:
            self.spurious.append({'ob': name, 'why': 'sat, no replay renderer',
                                  'model': _short(str(m))})
            return 'sat'
        blocked = []
        for k in range(tries):
            if k < len(models):
                mm = models[k]
            else:
                # ask for a different model
                r3, dt3, mm = symx.solve(list(ctx.pc) + list(extra) + [z3.Not(claim)] + blocked, min(timeout_ms, 15000))
                self.solver_time += dt3
                if r3 != 'sat':
                    break
            try:
                c = cex(mm)
            except Exception as e:   # renderer bug = harness error
                self.errors.append('cex renderer failed for %s: %r' % (name, e))
                return 'sat'
            if c is None:
                continue
            cls = c.get('cls', name)
            if cls in self._seen_cls:
                self.sat_same_class += 1
                return 'sat'
            is_robust = robust is not None and len(models) == 2 and k == 0      # a model of the with-margin query: always worth a replay
            if self._failed_cls.get(cls, 0) >= 4 and not is_robust:
                break
            ok, out = self.replay(name, c)
            last = {'inputs': _short(c.get('inputs')), 'output': out.strip()[-300:]}
            if not ok:
                self._failed_cls[cls] = self._failed_cls.get(cls, 0) + 1
            if ok:
                return 'sat'
            # block this model's point on the named inputs (coarsely)
            try:
                for d in mm.decls():
                    if d.arity() == 0 and '!' not in d.name() and z3.is_real(d()):
                        blocked.append(d() != mm[d])
                        break
            except Exception:
                pass
        self.spurious.append({'ob': name, 'why': 'sat but no model reproduced', 'last': locals().get('last')})
        return 'sat'

    def ob_eq(self, name, ctx, lhs, rhs, extra=(), timeout_ms=20000, **kw):
        """Obligation pc /\\ extra => lhs == rhs over the reals.  First through an ideal-membership certificate
        (vf/cert.py: sympy proposes cofactors, z3 checks every step), then as a plain query."""
        from . import cert
        v, dt, info = cert.prove_eq_mod(ctx, lhs, rhs, extra, min(timeout_ms, 20000))
        self.solver_time += dt
        if v == 'unsat':
            self.obligations += 1
            self.discharged += 1
            self.stubs.add('some equalities discharged through z3-checked ideal-membership certificates (cofactors proposed by sympy)')
            return 'unsat'
        return self.ob(name, ctx, lhs == rhs, extra=extra, timeout_ms=timeout_ms, **kw)

    def replay(self, name, c):
        """write + run a replay script; record as confirmed cex if exit 1."""
        d = os.path.join(os.environ.get('VERIF_REPLAY_DIR') or os.path.join(VERIF, 'replays'), self.prop)    # override only used by tools/try_seeded.sh
        os.makedirs(d, exist_ok=True)
        fn = os.path.join(d, '%s__%s.py' % (self.family, _slug(c.get('cls', name))))
        src = PRELUDE % REPO + '\n' + c['script'] + '\nNOT_REPRODUCED()\n'
        tmp = fn + '.cand%d' % os.getpid()
        with open(tmp, 'w') as f:
            f.write(src)
        try:
            p = subprocess.run([REPLAY_PY, tmp], capture_output=True, text=True,
                               timeout=600, cwd='/')
            code, out = p.returncode, (p.stdout + p.stderr)[-2000:]
            if code == 1 and 'REPRODUCED:' not in p.stdout:
                code = 2   # the script itself crashed: not a reproduction
        except subprocess.TimeoutExpired:
            code, out = -1, 'replay timed out'
        if code == 1:
            os.replace(tmp, fn)
            cls = c.get('cls', name)
            if cls not in self._seen_cls:
                self._seen_cls.add(cls)
                rec = {'ob': name, 'cls': cls, 'replay': fn,
                       'inputs': _short(c.get('inputs')),
                       'output': out.strip()[-400:]}
                self.cex.append(rec)
                self._send('cex', rec)
            return True, out
        os.remove(tmp)
        if code not in (0, 1):
            self.errors.append('replay script crashed for %s: %s' % (name, out[-600:]))
        return False, out

    def direct_cex(self, name, c):
        """a counterexample not coming from a prove() call (e.g. an exception
        on a feasible path); still replayed before it counts."""
        self.obligations += 1
        ok, out = self.replay(name, c)
        if not ok:
            self.spurious.append({'ob': name, 'why': 'path result not reproduced',
                                  'inputs': _short(c.get('inputs')), 'out': out[-300:]})
        return ok

    def probe(self, name, c):
        """fallback for an obligation the solver left undecided: a concrete probe of the real code (the replay script of the
        obligation on fixed inputs).  A reproduction is a confirmed counterexample; no reproduction changes nothing (the
        obligation stays inconclusive)."""
        self.probes = getattr(self, 'probes', 0) + 1
        ok, out = self.replay(name, c)
        return ok

    def _cvc5(self, name, ctx, claim, extra, timeout_ms):
        try:
            from .cvc5x import cvc5_check
        except Exception:
            return
        r = cvc5_check(list(ctx.pc) + list(extra) + [z3.Not(claim)], timeout_ms)
        if r is None:
            return
        self.cvc5_checked += 1
        if r == 'sat':
            self.cvc5_disagree.append(name)

    def result(self):
        return {k: (sorted(v) if isinstance(v, set) else v)
                for k, v in self.__dict__.items() if not k.startswith('_')}


def _slug(s):
    return ''.join(ch if ch.isalnum() or ch in '-_' else '_' for ch in str(s))[:80]


def _short(o, n=400):
    try:
        s = json.dumps(o, default=str)
    except Exception:
        s = repr(o)
    if len(s) > n:
        return s[:n] + '...'
    try:
        return json.loads(s)
    except Exception:
        return s


# --------------------------------------------------------------------------
# tracing which repo functions were entered
# --------------------------------------------------------------------------
_entered = set()


def _start_trace():
    mon = getattr(sys, 'monitoring', None)
    if mon is None:
        return
    tid = mon.PROFILER_ID
    try:
        mon.use_tool_id(tid, 'vf')
    except ValueError:
        return
    root = os.path.join(REPO, 'svgpathtools') + os.sep

    def on_start(code, off):
        fn = code.co_filename
        if fn.startswith(root):
            _entered.add('%s:%s' % (os.path.basename(fn)[:-3], code.co_qualname))
        return mon.DISABLE
    mon.register_callback(tid, mon.events.PY_START, on_start)
    mon.set_events(tid, mon.events.PY_START)


def _run_family(args, conn):
    prop, name, modname, fname, kw, tier, seed = args
    t0 = time.time()
    R = Report(prop, name, tier)
    R._conn = conn
    try:
        _start_trace()
        symx.OPTS['family_budget_s'] = float(os.environ.get(
            'VERIF_FAMILY_BUDGET_S', '150' if tier == 'quick' else '900'))
        import importlib
        mod = importlib.import_module(modname)
        fn = getattr(mod, fname)
        fn(R, **kw)
    except symx.PathLimit as e:
        R.incomplete.append('%s: %s' % (name, e))
    except BaseException as e:
        R.errors.append('family %s crashed: %s' % (name, ''.join(
            traceback.format_exception(type(e), e, e.__traceback__))[-1500:]))
    out = R.result()
    out['wall_s'] = time.time() - t0
    out['functions'] = sorted(_entered)
    try:
        conn.send(('done', out))
        conn.close()
    except Exception:
        pass


def _schedule(tasks, jobs, tier):
    """own process pool with a HARD wall limit per family (z3 does not always
    honour its timeout): a family that overruns is killed; what it streamed so
    far (confirmed counterexamples, counters) is kept and it is reported as
    incomplete, never as success."""
    ctxm = mp.get_context('fork')
    budget = float(os.environ.get('VERIF_FAMILY_BUDGET_S', '150' if tier == 'quick' else '900'))
    hard = budget * 1.5 + 60
    pending = list(tasks)
    running = []   # (proc, conn, args, t0, partial)
    results = []
    while pending or running:
        while pending and len(running) < jobs:
            a = pending.pop(0)
            pc, cc = ctxm.Pipe(duplex=False)
            p = ctxm.Process(target=_run_family, args=(a, cc), daemon=True)
            p.start()
            cc.close()
            running.append([p, pc, a, time.time(), {'cex': [], 'progress': None}])
        time.sleep(0.05)
        for item in list(running):
            p, conn, a, t0, part = item
            done = None
            try:
                while conn.poll():
                    kind, payload = conn.recv()
                    if kind == 'cex':
                        part['cex'].append(payload)
                    elif kind == 'progress':
                        part['progress'] = payload
                    elif kind == 'done':
                        done = payload
            except (EOFError, OSError):
                if not p.is_alive() and done is None:
                    done = _partial_result(a, part, time.time() - t0,
                                           'worker died without a result (exit code %s)' % p.exitcode, True)
            if done is None and time.time() - t0 > hard:
                p.terminate()
                p.join(5)
                if p.is_alive():
                    p.kill()
                done = _partial_result(a, part, time.time() - t0,
                                       'killed after %.0fs (hard family limit)' % (time.time() - t0), False)
            if done is not None:
                p.join(5)
                running.remove(item)
                results.append(done)
                r = done
                print('  [%s] %-28s paths=%-5d ob=%-5d ok=%-5d inc=%-3d cex=%d spurious=%d err=%d  %.1fs%s' % (
                    a[0], r['family'], r['paths'], r['obligations'], r['discharged'],
                    len(r['inconclusive']), len(r['cex']), len(r['spurious']),
                    len(r['errors']), r['wall_s'], '  INCOMPLETE' if r['incomplete'] else ''), flush=True)
    return results


def _partial_result(a, part, wall, why, is_error):
    R = Report(a[0], a[1], a[5])
    out = R.result()
    pr = part.get('progress') or {}
    for k in ('paths', 'nontrivial', 'obligations', 'discharged', 'witnesses', 'solver_time', 'feas_queries'):
        if k in pr:
            out[k] = pr[k]
    out['cex'] = part['cex']
    out['incomplete'] = ['%s: %s' % (a[1], why)]
    if is_error:
        out['errors'] = ['%s: %s' % (a[1], why)]
    out['wall_s'] = wall
    out['functions'] = []
    return out


def load_findings():
    known, fixed = {}, []
    p = os.path.join(VERIF, 'known_findings.txt')
    if os.path.exists(p):
        for line in open(p):
            line = line.strip()
            if not line or line.startswith('#'):
                continue
            if line.startswith('finding:'):
                parts = line[len('finding:'):].split()
                d = dict(x.split('=', 1) for x in parts[:2])
                known[(d['property'], d['class'])] = ' '.join(parts[2:])
            elif line.startswith('fixed:'):
                fixed.append(line)
    return known, fixed


def module_hashes():
    out = {}
    d = os.path.join(REPO, 'svgpathtools')
    for f in sorted(os.listdir(d)):
        if f.endswith('.py'):
            out[f] = hashlib.sha256(open(os.path.join(d, f), 'rb').read()).hexdigest()[:16]
    return out


def run_property(prop, tier, seed, families, meta, jobs=None):
    """families: list of (name, module, function, kwargs)"""
    t0 = time.time()
    jobs = jobs or int(os.environ.get('VERIF_JOBS', '16'))
    tasks = [(prop, n, m, f, kw, tier, seed) for (n, m, f, kw) in families]
    # deterministic schedule order depends on the seed only
    import random
    random.Random(seed).shuffle(tasks)
    results = _schedule(tasks, jobs, tier)
    results.sort(key=lambda r: r['family'])
    known, fixed = load_findings()
    violations, knowns, harness = [], [], []
    seen = set()
    for r in results:
        for c in r['cex']:
            key = (prop, _slug(c['cls']))
            if key in seen:
                continue
            seen.add(key)
            if key in known:
                knowns.append((c, known[key]))
            else:
                violations.append(c)
        for s in r['spurious']:
            harness.append('%s: spurious candidate %s' % (r['family'], s))
        for e in r['errors']:
            harness.append('%s: %s' % (r['family'], e))
        for v in r['vacuous']:
            harness.append('%s: vacuous obligation family %s' % (r['family'], v))
        for v in r['cvc5_disagree']:
            harness.append('%s: cvc5 disagrees with z3 on %s' % (r['family'], v))
        if r['obligations'] > 0 and r['discharged'] == 0 and not r['cex'] and not r['spurious'] and not r['incomplete']:
            harness.append('%s: every obligation inconclusive' % r['family'])
        if r['obligations'] == 0 and not r['errors'] and not r['incomplete']:
            harness.append('%s: no obligation reached' % r['family'])
    tot = lambda k: sum(r[k] for r in results)
    funcs = sorted(set(f for r in results for f in r['functions']))
    stubs = sorted(set(s for r in results for s in r['stubs']))
    inconcl = [('%s/%s' % (r['family'], x)) for r in results for x in r['inconclusive']]
    incomplete = [x for r in results for x in r['incomplete']]
    bounds = {}
    for r in results:
        for k, v in r['bounds'].items():
            bounds['%s.%s' % (r['family'], k)] = v
    samples = []
    for r in results:
        for s in r['samples'][:2]:
            samples.append({'family': r['family'], 'case': s})
    ev = {
        'property_id': prop,
        'tier': tier,
        'seed': seed,
        'level': 'other',
        'coverage': {
            'explanation': meta['explanation'],
            'technique': 'bounded symbolic execution of the real /repo code on z3-backed values; SMT verdict per obligation; sat models replayed on the real library',
            'evaluations': tot('paths'),
            'distinct_nontrivial': tot('nontrivial'),
            'rule': 'evaluations = feasible control paths of the real code explored by the symbolic executor (each is a distinct decision vector, hence distinct); non-trivial = the path took at least one solver-decided branch or discharged at least one non-constant obligation',
            'obligations': tot('obligations'),
            'discharged': tot('discharged'),
            'inconclusive': inconcl[:50],
            'inconclusive_count': len(inconcl),
            'incomplete': incomplete,
            'sat_replayed_confirmed': sum(len(r['cex']) for r in results),
            'sat_not_reproduced': sum(len(r['spurious']) for r in results),
            'reachability_witnesses': tot('witnesses'),
            'feasibility_queries': tot('feas_queries'),
            'unknown_feasibility': tot('unknown_feas'),
            'cvc5_cross_checked': tot('cvc5_checked'),
            'solver_time_s': round(tot('solver_time'), 2),
            'solver_versions': {'z3': z3.get_version_string()},
            'functions_encoded': funcs,
            'module_sha256_16': module_hashes(),
            'bounds': bounds,
            'outside_claim': meta.get('outside', []),
            'stubs': stubs,
            'families': [{k: r[k] for k in ('family', 'paths', 'obligations', 'discharged', 'wall_s')} for r in results],
            'samples': samples[:12] or [{'note': 'no samples recorded'}],
            'known_findings_hit': [c['cls'] for c, _ in knowns],
            'exhaustive': False,
        },
        'assumptions': meta.get('assumptions', []) + ['stubs: ' + ', '.join(stubs)],
        'wall_s': round(time.time() - t0, 2),
        'violations': len(violations),
    }
    evdir = os.environ.get('VERIF_EVIDENCE_DIR') or os.path.join(VERIF, 'evidence')   # override only used by tools/try_seeded.sh
    os.makedirs(evdir, exist_ok=True)
    with open(os.path.join(evdir, prop + '.json'), 'w') as f:
        json.dump(ev, f, indent=1, default=str)
    for c, desc in knowns:
        print('KNOWN-FINDING: property=%s %s [%s] replay=%s' % (prop, desc, c['cls'], c['replay']))
    for c in violations:
        print('VIOLATION property=%s replay=%s' % (prop, c['replay']))
        print('   class=%s ob=%s inputs=%s\n   %s' % (c['cls'], c['ob'], c['inputs'], c['output']))
    print('[%s %s] paths=%d obligations=%d discharged=%d inconclusive=%d confirmed-cex=%d wall=%.1fs' % (
        prop, tier, tot('paths'), tot('obligations'), tot('discharged'), len(inconcl),
        len(violations) + len(knowns), time.time() - t0))
    if inconcl:
        print('  inconclusive (not counted as discharged): %s' % ', '.join(inconcl[:12]))
    if incomplete:
        print('  incomplete: %s' % '; '.join(incomplete[:6]))
    if tot('discharged') == 0 and not violations and not knowns:
        harness.append('no obligation was discharged in the whole run')
    if violations:
        return EXIT_VIOLATION
    if harness:
        for h in harness[:20]:
            print('HARNESS-ERROR %s' % h[:1500])
        return EXIT_HARNESS
    return EXIT_OK
