"""F domain: IEEE-754 binary64 values (z3 FP(11,53), round-nearest-even) that
the real code can compute with.  Comparisons return SB, so the same
re-execution explorer is used (with a QF_FP solver)."""
import z3

from .symx import SB, Ctx

F64 = z3.Float64()
RM = z3.RNE()


def fpv(x):
    if isinstance(x, SF):
        return x.e
    if isinstance(x, bool):
        x = int(x)
    if isinstance(x, (int, float)):
        return z3.FPVal(float(x), F64)
    import numpy as np
    if isinstance(x, (np.integer, np.floating)):
        return z3.FPVal(float(x), F64)
    return None


class SF:
    __slots__ = ('e',)

    def __init__(s, e):
        s.e = e

    def _b(s, o, f):
        o = fpv(o)
        if o is None:
            return NotImplemented
        return SF(f(s.e, o))

    def __add__(s, o):
        return s._b(o, lambda a, b: z3.fpAdd(RM, a, b))

    def __radd__(s, o):
        return s._b(o, lambda a, b: z3.fpAdd(RM, b, a))

    def __sub__(s, o):
        return s._b(o, lambda a, b: z3.fpSub(RM, a, b))

    def __rsub__(s, o):
        return s._b(o, lambda a, b: z3.fpSub(RM, b, a))

    def __mul__(s, o):
        return s._b(o, lambda a, b: z3.fpMul(RM, a, b))

    def __rmul__(s, o):
        return s._b(o, lambda a, b: z3.fpMul(RM, b, a))

    def __truediv__(s, o):
        ov = fpv(o)
        if ov is None:
            return NotImplemented
        if SB(z3.fpIsZero(ov)):
            raise ZeroDivisionError('float division by zero')
        return SF(z3.fpDiv(RM, s.e, ov))

    def __rtruediv__(s, o):
        ov = fpv(o)
        if ov is None:
            return NotImplemented
        if SB(z3.fpIsZero(s.e)):
            raise ZeroDivisionError('float division by zero')
        return SF(z3.fpDiv(RM, ov, s.e))

    def __neg__(s):
        return SF(z3.fpNeg(s.e))

    def __abs__(s):
        return SF(z3.fpAbs(s.e))

    def _c(s, o, f):
        o = fpv(o)
        if o is None:
            return NotImplemented
        return SB(f(s.e, o))

    def __eq__(s, o):
        if o is None:
            return False
        return s._c(o, z3.fpEQ)

    def __ne__(s, o):
        if o is None:
            return True
        r = s._c(o, z3.fpEQ)
        return ~r if isinstance(r, SB) else r

    def __lt__(s, o):
        return s._c(o, z3.fpLT)

    def __le__(s, o):
        return s._c(o, z3.fpLEQ)

    def __gt__(s, o):
        return s._c(o, z3.fpGT)

    def __ge__(s, o):
        return s._c(o, z3.fpGEQ)

    def __hash__(s):
        return 0

    def __bool__(s):
        return bool(~SB(z3.fpIsZero(s.e)))

    def __repr__(s):
        return 'SF(%s)' % s.e

    def __format__(s, spec):
        return 'SF'


def py312_sum(xs, start=0):
    """builtin sum() of CPython >= 3.12 on floats: Neumaier compensated
    summation (Python/bltinmodule.c).  Falls back to the builtin for
    non-symbolic inputs."""
    xs = list(xs)
    if not any(isinstance(x, SF) for x in xs):
        return sum(xs, start)
    s = fpv(float(start))
    c = z3.FPVal(0.0, F64)
    for x in xs:
        x = fpv(x)
        t = z3.fpAdd(RM, s, x)
        big = z3.fpGEQ(z3.fpAbs(s), z3.fpAbs(x))
        c = z3.fpAdd(RM, c, z3.If(big, z3.fpAdd(RM, z3.fpSub(RM, s, t), x),
                                  z3.fpAdd(RM, z3.fpSub(RM, x, t), s)))
        s = t
    return SF(z3.If(z3.fpIsZero(c), s, z3.fpAdd(RM, s, c)))


def symf(name):
    return SF(z3.FP(name, F64))


def finite(x):
    return z3.And(z3.Not(z3.fpIsNaN(x.e)), z3.Not(z3.fpIsInf(x.e)))


def in_range(x, lo, hi):
    return z3.And(z3.fpGEQ(x.e, z3.FPVal(lo, F64)), z3.fpLEQ(x.e, z3.FPVal(hi, F64)))


def fval(m, x):
    """python float of an FP term under a model (exact)."""
    v = m.eval(x.e if isinstance(x, SF) else x, model_completion=True)
    if z3.is_fp_value(v) or z3.is_fprm_value(v):
        pass
    s = str(z3.simplify(z3.fpToReal(v)))
    try:
        from fractions import Fraction
        return float(Fraction(s))
    except Exception:
        import re
        # forms like "1/3" or "-1/3" or decimal
        return float(eval(s.replace('?', '')))


# ----------------------------------------------------------------------------
# external solver race for hard QF_FP satisfiability questions
# ----------------------------------------------------------------------------
import os
import re as _re
import struct
import subprocess
import tempfile
import time as _time


def _fp_literal_to_float(sign, exp, mant):
    def bits(x):
        if x.startswith('#b'):
            return x[2:]
        return bin(int(x[2:], 16))[2:].zfill(4 * (len(x) - 2))
    b = bits(sign) + bits(exp) + bits(mant)
    assert len(b) == 64, b
    return struct.unpack('>d', int(b, 2).to_bytes(8, 'big'))[0]


def parse_fp_model(text):
    """{name: float} from (get-model) output of z3 or cvc5"""
    out = {}
    for m in _re.finditer(r'\(define-fun\s+(\S+)\s+\(\)\s+\(_ FloatingPoint 11 53\)\s+(\([^()]*\)|\(_ [^()]*\))\)', text):
        name, val = m.group(1), m.group(2)
        mm = _re.match(r'\(fp\s+(\S+)\s+(\S+)\s+(\S+)\)', val)
        if mm:
            out[name] = _fp_literal_to_float(*mm.groups())
        elif '+zero' in val:
            out[name] = 0.0
        elif '-zero' in val:
            out[name] = -0.0
    return out


def fp_race(assertions, timeout_s, hints=()):
    """satisfiability of QF_FP assertions: cvc5 and z3 binaries race, first
    with the optional search hints (a sat answer there is a sat answer), then
    without.  returns (verdict, model-dict|None, seconds, who)."""
    import z3 as _z3
    t0 = _time.time()
    stages = ([list(assertions) + list(hints)] if hints else []) + [list(assertions)]
    unsat_plain = False
    for si, asr in enumerate(stages):
        s = _z3.Solver()
        s.add(*asr)
        txt = '(set-logic QF_FP)\n(set-option :produce-models true)\n' + '\n'.join(
            l for l in s.to_smt2().splitlines() if not l.startswith('(set-info'))
        txt = txt.replace('(check-sat)', '(check-sat)\n(get-model)')
        fd, fn = tempfile.mkstemp(suffix='.smt2', dir=os.environ.get('TMPDIR', '/tmp'))
        os.write(fd, txt.encode())
        os.close(fd)
        left = max(5, timeout_s - (_time.time() - t0))
        if hints and si == 0:
            left = left * 0.6
        procs = {}
        for who, cmd in (('cvc5', ['cvc5', '--produce-models', fn]), ('z3', ['z3', fn])):
            try:
                procs[who] = subprocess.Popen(cmd, stdout=subprocess.PIPE, stderr=subprocess.DEVNULL, text=True)
            except OSError:
                pass
        verdict, model, winner = 'unknown', None, None
        t1 = _time.time()
        done = set()
        while procs and _time.time() - t1 < left and len(done) < len(procs):
            for who, p in procs.items():
                if who in done or p.poll() is None:
                    continue
                done.add(who)
                out = p.stdout.read()
                first = out.strip().splitlines()[0] if out.strip() else ''
                if first == 'sat':
                    verdict, model, winner = 'sat', parse_fp_model(out), who
                elif first == 'unsat' and verdict != 'sat':
                    verdict, winner = 'unsat', who
            if verdict in ('sat', 'unsat'):
                break
            _time.sleep(0.2)
        for p in procs.values():
            if p.poll() is None:
                p.kill()
        os.remove(fn)
        if verdict == 'sat':
            return 'sat', model, _time.time() - t0, winner
        if verdict == 'unsat' and (not hints or si == len(stages) - 1):
            return 'unsat', None, _time.time() - t0, winner
    return 'unknown', None, _time.time() - t0, None
