"""C19 -- generic n-th order Bezier helpers and polynomial helpers."""
from math import comb
import itertools

import numpy as np
import z3

from ..symx import (SR, SC, explore, symc, symr, ceq, req, mval, mcval, Ctx, zabs, lift)
from ..stubs import NPProxy, patched
from .c03 import bern, power_coeffs, REPLAY_ORACLE

META = {
    'explanation': (
        'bezier_point, bezier2polynomial (all branches incl. the general-degree one), polynomial2bezier, split_bezier, '
        'halve_bezier run on symbolic control points for each degree 0..8 and are compared by z3 with an independent '
        'Bernstein oracle (identities for all values).  polyroots/polyroots01 run for real on the output of a stubbed '
        'np.roots that returns an ARBITRARY list of m symbolic roots (real or complex, any order): z3 decides whether a '
        'simple, condition-satisfying real root can be missing or duplicated in the result.  rational_limit runs on '
        'symbolic-coefficient poly1d objects f=(t-t0)^m f1, g=(t-t0)^m g1.'),
    'outside': ['accuracy of LAPACK eigenvalues behind np.roots (stubbed: exact roots in arbitrary order)',
                'degree > 8; root lists longer than the stated m', 'rounding (reals)'],
    'assumptions': ['np.roots contract: returns deg(p) numbers; the check quantifies over all lists and orders',
                    'floats modelled as reals'],
}


# ----------------------------------------------------------------------------
def horner(co, x):
    r = co[0]
    for c in co[1:]:
        r = r * x + c
    return r


def fam_bezier_n(R, deg):
    from svgpathtools.bezier import (bezier_point, bezier2polynomial, polynomial2bezier,
                                     split_bezier, halve_bezier)
    R.bound(degree=deg)

    def run():
        ps = [symc('p%d' % i) for i in range(deg + 1)]
        t, u = symr('t'), symr('u')
        out = []
        out.append(('bezier_point', bezier_point(ps, t), bern(ps, t)))
        co = bezier2polynomial(ps)
        out.append(('bezier2polynomial.eval', horner(list(co), u), bern(ps, u)))
        co_r = bezier2polynomial(ps, numpy_ordering=False)
        oracle = power_coeffs(ps)
        for j in range(deg + 1):
            out.append(('bezier2polynomial.std_order[%d]' % j, co_r[j], oracle[j]))
            out.append(('bezier2polynomial.np_order[%d]' % j, co[deg - j], oracle[j]))
        if 0 < deg <= 4:
            p1 = bezier2polynomial(ps, return_poly1d=True)
            out.append(('bezier2polynomial.poly1d', p1(u), bern(ps, u)))
        if 1 <= deg <= 3:
            back = polynomial2bezier(list(co))
            for j in range(deg + 1):
                out.append(('polynomial2bezier.inv[%d]' % j, back[j], ps[j]))
            cs = [symc('c%d' % i) for i in range(deg + 1)]
            fw = bezier2polynomial(polynomial2bezier(cs))
            for j in range(deg + 1):
                out.append(('bezier2polynomial.inv[%d]' % j, fw[j], cs[j]))
        if deg >= 1:
            l, r = split_bezier(ps, t)
            out.append(('split.left', bern(l, u), bern(ps, u * t)))
            out.append(('split.right', bern(r, u), bern(ps, t + u * (1 - t))))
            out.append(('split.meet', l[-1], r[0]))
            out.append(('split.meet=point', l[-1], bern(ps, t)))
            out.append(('split.ends', l[0] + r[-1], ps[0] + ps[-1]))
            hl, hr = halve_bezier(ps)
            hl2, hr2 = split_bezier(ps, 0.5)
            for j in range(deg + 1):
                out.append(('halve.left[%d]' % j, hl[j], hl2[j]))
                out.append(('halve.right[%d]' % j, hr[j], hr2[j]))
            out.append(('halve.left.curve', bern(hl, u), bern(ps, u / 2)))
            out.append(('halve.right.curve', bern(hr, u), bern(ps, (1 + u) / 2)))
        return ps, t, u, out

    for ctx, (kind, val) in explore(run, maxpaths=200):
        R.path(ctx, nontrivial=True)
        if kind != 'ok':
            R.error('unexpected %s %r' % (kind, val))
            continue
        ps, t, u, out = val
        for name, got, want in out:
            def cex(m, name=name):
                pts = [mcval(m, p) for p in ps]
                return render_generic(deg, name, pts, mval(m, t), mval(m, u))
            R.ob('deg%d.%s' % (deg, name), ctx, ceq(got, want), cex=cex, timeout_ms=60000)
        R.sample({'degree': deg, 'obligations': [n for n, _, _ in out][:8]})


def render_generic(deg, name, pts, tv, uv):
    script = REPLAY_ORACLE + '''
from svgpathtools.bezier import *
ps = %r; t = %r; u = %r; deg = %d; name = %r
def pcF(ps):
    n = len(ps)-1; out = []
    for j in range(n+1):
        c = 0
        for i in range(j+1):
            c += ps[i]*(comb(n,j)*comb(j,i)*(-1)**(i+j))
        out.append(c)
    return out
tol = 1e-8*max(1.0, max(abs(p) for p in ps))*max(1.0,abs(t),abs(u))**deg
bad = []
def chk(nm, got, want):
    if abs(complex(got)-complex(want)) > tol: bad.append((nm, got, want))
chk('bezier_point', bezier_point(ps, t), bernF(ps, t))
co = bezier2polynomial(ps); cr = bezier2polynomial(ps, numpy_ordering=False); oc = pcF(ps)
for j in range(deg+1):
    chk('bezier2polynomial.std_order', cr[j], oc[j]); chk('bezier2polynomial.np_order', co[deg-j], oc[j])
if deg > 0:
    chk('bezier2polynomial.eval', np.poly1d(list(co))(u), bernF(ps, u))
    chk('bezier2polynomial.poly1d', bezier2polynomial(ps, return_poly1d=True)(u), bernF(ps, u))
    l, r = split_bezier(ps, t)
    chk('split.left', bernF(l, u), bernF(ps, u*t)); chk('split.right', bernF(r, u), bernF(ps, t+u*(1-t)))
    chk('split.meet', l[-1], r[0]); chk('split.meet=point', l[-1], bernF(ps, t))
    hl, hr = halve_bezier(ps)
    chk('halve.left.curve', bernF(hl, u), bernF(ps, u/2)); chk('halve.right.curve', bernF(hr, u), bernF(ps, (1+u)/2))
if 1 <= deg <= 3:
    back = polynomial2bezier(list(co))
    for j in range(deg+1): chk('polynomial2bezier.inv', back[j], ps[j])
    fw = bezier2polynomial(polynomial2bezier(ps))
    for j in range(deg+1): chk('bezier2polynomial.inv', fw[j], ps[j])
if bad:
    REPRODUCED('degree %%d: %%s' %% (deg, bad[:2]))
''' % (pts, tv, uv, deg, name)
    base = name.split('[')[0]
    return {'cls': 'generic-bezier.%s' % base, 'inputs': {'ps': [str(p) for p in pts], 't': tv, 'u': uv},
            'script': script}


def fam_nchoosek(R):
    from svgpathtools.bezier import n_choose_k, bernstein
    R.bound(n='0..8', k='0..n')
    bad = []
    cnt = 0
    for n in range(0, 9):
        for k in range(0, n + 1):
            cnt += 1
            if n_choose_k(n, k) != comb(n, k):
                bad.append((n, k))
    # bernstein(n, t) symbolic
    def run():
        t = symr('t')
        return t, [(n, bernstein(n, t)) for n in range(0, 9)]
    for ctx, (kind, val) in explore(run, maxpaths=5):
        R.path(ctx, nontrivial=True)
        t, lst = val
        for n, b in lst:
            claim = z3.And(*[req(b[k], lift(comb(n, k)) * (1 - t) ** (n - k) * t ** k) for k in range(n + 1)])
            R.ob('bernstein.n%d' % n, ctx, claim)
            R.ob('bernstein.n%d.partition_of_unity' % n, ctx, req(sum(b[1:], b[0]), 1))
    R.obligations += 1
    if not bad:
        R.discharged += 1
    else:
        R.direct_cex('n_choose_k', {'cls': 'n_choose_k', 'inputs': bad[:3], 'script': '''
from svgpathtools.bezier import n_choose_k
from math import comb
for n,k in %r:
    if n_choose_k(n,k) != comb(n,k): REPRODUCED('n_choose_k(%%d,%%d)=%%r' %% (n,k,n_choose_k(n,k)))
''' % bad[:3]})
    R.sample({'n_choose_k pairs checked concretely': cnt})


# ----------------------------------------------------------------------------
# polyroots / polyroots01
# ----------------------------------------------------------------------------
SEP = 1e-3   # "simple" = further than this from every other listed root (>> isclose tolerance)


def fam_polyroots(R, m, ncomplex):
    """np.roots stub: m symbolic roots, the first `ncomplex` of them form
    complex-conjugate... no: arbitrary complex numbers with |imag| >= SEP; the
    rest are real.  Their ORDER in the list is a symbolic permutation chosen
    by enumerating interleavings."""
    import svgpathtools.polytools as PT
    R.bound(roots=m, complex_roots=ncomplex, separation=SEP)
    R.stub('np.roots -> arbitrary list of %d roots in arbitrary order' % m)
    nreal = m - ncomplex
    # positions of the complex roots inside the list: all choices
    for cpos in itertools.combinations(range(m), ncomplex):
        def run():
            roots = []
            ri = ci = 0
            c = Ctx.cur
            for i in range(m):
                if i in cpos:
                    z = SC(symr('c%d.re' % ci), symr('c%d.im' % ci))
                    c.assume(zabs(z.imag.e) >= SEP)
                    roots.append(z)
                    ci += 1
                else:
                    roots.append(SC(symr('r%d' % ri), 0))
                    ri += 1
            stub = NPProxy(roots=lambda p: list(roots))
            with patched(PT, np=stub):
                out01 = PT.polyroots01([1] * (m + 1))
            return roots, out01

        for ctx, (kind, val) in explore(run, maxpaths=20000, budget_s=1500):
            R.path(ctx)
            if kind != 'ok':
                R.error('unexpected %s %r' % (kind, val))
                continue
            roots, out = val
            reals = [r.real for i, r in enumerate(roots) if i not in cpos]
            for i, r in enumerate(reals):
                others = [o for j, o in enumerate(reals) if j != i]
                # simple among the roots that satisfy the condition: roots outside [0,1] (and complex ones) may lie arbitrarily close
                simple = z3.And(r.e >= 0, r.e <= 1, *[z3.Implies(z3.And(o.e >= 0, o.e <= 1), zabs(r.e - o.e) >= SEP) for o in others])
                count = z3.Sum([z3.If(lift(o).e == r.e, 1, 0) for o in out]) if out else z3.IntVal(0)
                desc = z3.And(*[a.e > b.e for a, b in zip(reals, reals[1:])]) if len(reals) > 1 else z3.BoolVal(True)

                def cex(mm):
                    vals = []
                    for z in roots:
                        vals.append(mcval(mm, z))
                    return render_roots(vals)
                R.ob('polyroots01.m%d.c%s.root%d.exactly_once' % (m, ''.join(map(str, cpos)), i), ctx,
                     z3.Implies(simple, count == 1), cex=cex,
                     robust=[simple, count != 1, desc], timeout_ms=30000)
        R.sample({'roots': m, 'complex_positions': list(cpos),
                  'claim': 'each real root in [0,1] further than %g from the others occurs exactly once' % SEP})


def render_roots(vals):
    script = '''
from svgpathtools.polytools import polyroots01, polyroots
roots = %r
# complex roots must come in conjugate pairs for a real polynomial: add the conjugates
full = []
for z in roots:
    full.append(z)
    if abs(z.imag) > 0: full.append(z.conjugate())
p = np.real_if_close(np.poly(full))
out = polyroots01(p)
reals = sorted(z.real for z in roots if z.imag == 0)
for r in reals:
    if not (0 <= r <= 1): continue
    if any(abs(r - o) < %r for o in reals if o is not r and 0 <= o <= 1): continue
    n = sum(1 for o in out if abs(o - r) < 1e-6)
    if n != 1:
        REPRODUCED('polyroots01(np.poly(%%r)) = %%r: simple root %%r occurs %%d times' %% (full, out, r, n))
# second level: numpy documents no order for np.roots; inject exactly the order of the solver model
import svgpathtools.polytools as PT
_real_roots = np.roots
np.roots = lambda p: np.array(roots)
try:
    out = polyroots01([1.0]*(len(roots)+1))
finally:
    np.roots = _real_roots
for r in reals:
    if not (0 <= r <= 1): continue
    if any(abs(r - o) < %r for o in reals if o is not r and 0 <= o <= 1): continue
    n = sum(1 for o in out if abs(o - r) < 1e-6)
    if n != 1:
        REPRODUCED('with np.roots returning %%r (order injection) polyroots01 = %%r: simple root %%r occurs %%d times' %% (roots, out, r, n))
''' % (vals, SEP, SEP)
    return {'cls': 'polyroots01.simple-root-lost-or-duplicated', 'inputs': {'roots': [str(v) for v in vals]},
            'script': script}


# ----------------------------------------------------------------------------
# rational_limit
# ----------------------------------------------------------------------------
def fam_rational_limit(R, m, cplx):
    import svgpathtools.polytools as PT
    R.bound(multiplicity=m, deg_f1=2, deg_g1=2, complex_f=cplx)

    def mk(prefix, cplx):
        if cplx:
            return [symc('%s%d' % (prefix, i)) for i in range(3)]
        return [symr('%s%d' % (prefix, i)) for i in range(3)]

    def run():
        t0 = symr('t0')
        f1c, g1c = mk('f', cplx), mk('g', False)
        f1, g1 = np.poly1d(f1c), np.poly1d(g1c)
        lin = np.poly1d([1, -t0])
        f, g = f1, g1
        for _ in range(m):
            f = f * lin
            g = g * lin
        f1v = f1c[0] * t0 * t0 + f1c[1] * t0 + f1c[2]
        g1v = g1c[0] * t0 * t0 + g1c[1] * t0 + g1c[2]
        try:
            res = ('ok', PT.rational_limit(f, g, t0))
        except ValueError as e:
            res = ('ValueError', e)
        except AssertionError as e:
            res = ('AssertionError', e)
        return t0, f1c, g1c, f1v, g1v, res

    for ctx, (kind, val) in explore(run, maxpaths=20000, budget_s=1200):
        R.path(ctx)
        if kind != 'ok':
            R.error('unexpected %s %r' % (kind, val))
            continue
        t0, f1c, g1c, f1v, g1v, (rk, rv) = val

        def cex(mm):
            fc = [mcval(mm, c) if cplx else mval(mm, c) for c in f1c]
            gc = [mval(mm, c) for c in g1c]
            return render_limit(m, fc, gc, mval(mm, t0))
        if rk == 'ok':
            # whenever a value is returned and g1(t0) != 0 it is the limit
            R.ob('rational_limit.m%d.value' % m, ctx,
                 z3.Implies(g1v.e != 0, ceq(rv, f1v / SR(z3.If(g1v.e == 0, 1, g1v.e)))), cex=cex)
            # a value may only be returned when the limit exists: g1(t0) != 0 or (0/0 deeper)
        elif rk == 'ValueError':
            # "Limit does not exist" is only allowed when it really does not: g1(t0) == 0
            R.ob('rational_limit.m%d.raises_only_without_limit' % m, ctx, g1v.e == 0, cex=cex)
        else:
            # assert g != 0 : only for the zero polynomial g
            R.ob('rational_limit.m%d.assert_only_zero_g' % m, ctx,
                 z3.And(*[c.e == 0 for c in g1c]), cex=cex)
    R.sample({'f': '(t-t0)^%d * (f0 t^2+f1 t+f2)' % m, 'g': '(t-t0)^%d * (g0 t^2+g1 t+g2)' % m,
              'claim': 'rational_limit(f,g,t0) == f1(t0)/g1(t0) when g1(t0) != 0'})


def render_limit(m, fc, gc, t0):
    script = '''
from svgpathtools.polytools import rational_limit
from fractions import Fraction as F
fc = %r; gc = %r; t0 = %r; m = %d
f1 = np.poly1d(fc); g1 = np.poly1d(gc); lin = np.poly1d([1, -t0])
f, g = f1, g1
for _ in range(m):
    f = f*lin; g = g*lin
g1v = g1(t0)
if abs(g1v) > 1e-300:
    want = f1(t0)/g1v
    try:
        got = rational_limit(f, g, t0)
    except Exception as e:
        REPRODUCED('rational_limit raised %%r but the limit exists: %%r' %% (e, want))
    if abs(got - want) > 1e-6*max(1.0, abs(want)):
        REPRODUCED('rational_limit = %%r, true limit %%r' %% (got, want))
''' % (fc, gc, t0, m)
    return {'cls': 'rational_limit.wrong-limit', 'inputs': {'f1': str(fc), 'g1': str(gc), 't0': t0, 'm': m},
            'script': script}


def families(tier):
    M = 'vf.props.c19'
    fams = [('bezier-deg%d' % d, M, 'fam_bezier_n', {'deg': d}) for d in range(0, 9)]
    fams.append(('n_choose_k', M, 'fam_nchoosek', {}))
    fams += [('polyroots-m%d-c%d' % (m, c), M, 'fam_polyroots', {'m': m, 'ncomplex': c})
             for m, c in ([(1, 0), (2, 0), (3, 0), (3, 1), (4, 0), (4, 1)] +
                          ([(5, 0), (5, 1), (4, 2)] if tier == 'thorough' else []))]
    fams += [('rational_limit-m%d-%s' % (m, 'c' if c else 'r'), M, 'fam_rational_limit', {'m': m, 'cplx': c})
             for m in (0, 1, 2, 3) for c in (False, True)]
    return fams
