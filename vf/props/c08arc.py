"""C08 -- Arc.bbox(): critical angles, k range, [0,1] filter, x/y assignment.

The real Arc.bbox and Arc.point run on an Arc whose state is constructed
directly (theta, delta, centre symbolic; radii and rotation concrete per
shard, the rotation with rational cos/sin).  Angles are carried as exact
degree values (class DA): `pi` is the angle of 180 degrees, so that
(ang + pi*k)*(360/(2*pi)) is evaluated exactly as the code writes it.
cos/sin of a symbolic angle are applications of an uninterpreted function
C(degrees) (sin x = C(x - 90)); atan of a concrete rational is a real
constant enclosed to 1e-12 degrees.  Path conditions are linear (divisions
by delta are cleared by sign).

Oracle (independent of the code's atan formulas): with A = rx cos(phi),
B = -ry sin(phi) the x coordinate is  cx + A cos a + B sin a = cx + PX(a - bx)
where bx = atan2(B, A) and PX(p) = R cos p; likewise y with A' = rx sin(phi),
B' = ry cos(phi).  PX, PY are uninterpreted; the solver is given, instantiated
on every angle that occurs, the identity above, monotonicity of PX on each
[180 j, 180 (j+1)], PX(180 j) = (-1)^j PX(0), PX(0) > 0 and |PX| <= PX(0).
These are the only trigonometric facts used.  Containment and tightness then
are quantifier-free UF+LRA queries over theta, delta, the centre and an
arbitrary angle between theta and theta+delta.
"""
import math
from fractions import Fraction

import z3

from ..symx import SR, SC, SB, explore, symr, mval, Ctx, lift, OPTS, _normalise
from ..stubs import patched, sym_min, sym_max

CF = z3.Function('cosd', z3.RealSort(), z3.RealSort())
PX = z3.Function('xprofile', z3.RealSort(), z3.RealSort())
PY = z3.Function('yprofile', z3.RealSort(), z3.RealSort())


def _norm(e):
    return z3.simplify(_normalise(z3.simplify(e)))


class Conv:
    """the number q/pi (e.g. 360/(2*pi))."""
    def __init__(s, q):
        s.q = q

    def __mul__(s, o):
        if isinstance(o, DA) and o.unit == 'rad':
            return SR(_norm(o.d * s.q / 180))
        return NotImplemented
    __rmul__ = __mul__


class DA:
    """the real number d*pi/180 (unit 'rad'): an angle known by its exact degree value d."""
    unit = 'rad'

    def __init__(s, d, cs=None):
        s.d = d if isinstance(d, z3.ExprRef) else z3.RealVal(str(d))
        s.cs = cs

    def _arg(s):
        d = _norm(s.d)
        Ctx.cur.__dict__.setdefault('ang_args', {})[d.get_id()] = d
        return d

    def cos(s):
        if s.cs is not None:
            return SR(z3.RealVal(str(s.cs[0])))
        return SR(CF(s._arg()))

    def sin(s):
        if s.cs is not None:
            return SR(z3.RealVal(str(s.cs[1])))
        return SR(CF(s._arg() - 90))

    def tan(s):
        return s.sin() / s.cos()

    def __add__(s, o):
        if isinstance(o, DA):
            return DA(s.d + o.d)
        if isinstance(o, (int, float)) and o == 0:
            return s
        return NotImplemented
    __radd__ = __add__

    def __sub__(s, o):
        if isinstance(o, DA):
            return DA(s.d - o.d)
        if isinstance(o, (int, float)) and o == 0:
            return s
        return NotImplemented

    def __neg__(s):
        return DA(-s.d)

    def __mul__(s, o):
        if isinstance(o, Conv):
            return o.__mul__(s)
        o = lift(o)
        if o is NotImplemented:
            return o
        return DA(s.d * o.e)
    __rmul__ = __mul__

    def __truediv__(s, o):
        if isinstance(o, DA):
            return SR(s.d) / SR(o.d)
        o = lift(o)
        if o is NotImplemented:
            return o
        return DA((SR(s.d) / o).e)

    def __rtruediv__(s, o):
        # number / (d*pi/180) = (180*number/d) / pi
        o = lift(o)
        if o is NotImplemented:
            return o
        return Conv((180 * o / SR(s.d)).e)


def _frac(e):
    e = z3.simplify(e)
    if not z3.is_rational_value(e):
        raise TypeError('atan of a non-constant in this harness: %s' % e)
    return Fraction(e.numerator_as_long(), e.denominator_as_long())


def atan_deg_const(v):
    """z3 constant for atan(v) in degrees, v an exact rational: one constant per |v|, enclosed to 1e-12 degrees."""
    cx = Ctx.cur
    memo = cx.__dict__.setdefault('atan_memo', {})
    if v == 0:
        return z3.RealVal(0)
    k = abs(v)
    if k not in memo:
        a = cx.fresh('atan')
        val = Fraction(math.degrees(_real_atan(float(k)))).limit_denominator(10 ** 13)
        eps = Fraction(1, 10 ** 11)
        cx.assume(a > z3.RealVal(str(val - eps)), a < z3.RealVal(str(val + eps)), a > 0, a < 90)
        if k == 1:
            cx.assume(a == 45)
        memo[k] = a
    return memo[k] if v > 0 else -memo[k]


def my_atan(x):
    if isinstance(x, SR):
        return DA(atan_deg_const(_frac(x.e)))
    return DA(atan_deg_const(Fraction(x))) if isinstance(x, (int, Fraction)) else DA(atan_deg_const(Fraction(float(x))))


def my_tan(x):
    if isinstance(x, DA):
        return x.tan()
    return _real_tan(x)


_real_tan, _real_atan = math.tan, math.atan

# (name, degrees, cos, sin): rotations whose cosine and sine are rational
ROTS = {
    'rot0': (0.0, Fraction(1), Fraction(0)),
    'rot90': (90.0, Fraction(0), Fraction(1)),
    'rot180': (180.0, Fraction(-1), Fraction(0)),
    'rot-90': (-90.0, Fraction(0), Fraction(-1)),
    'rot53': (math.degrees(math.atan2(4, 3)), Fraction(3, 5), Fraction(4, 5)),
    'rot113': (math.degrees(math.atan2(12, -5)), Fraction(-5, 13), Fraction(12, 13)),
    'rot-37': (math.degrees(math.atan2(-3, 4)), Fraction(4, 5), Fraction(-3, 5)),
    'rot-127': (math.degrees(math.atan2(-4, -3)), Fraction(-3, 5), Fraction(-4, 5)),
    'rot16': (math.degrees(math.atan2(7, 24)), Fraction(24, 25), Fraction(7, 25)),
}
# radii with an exactly representable quotient ry/rx
RADII = {'2x1': (2.0, 1.0), '1x4': (1.0, 4.0), 'circle': (2.5, 2.5)}

REPLAY = '''
import math
rot, rx, ry, cx, cy, theta, delta = %r
phi = math.radians(rot)
def pt(a):
    a = math.radians(a)
    x, y = rx * math.cos(a), ry * math.sin(a)
    return complex(cx + math.cos(phi) * x - math.sin(phi) * y, cy + math.sin(phi) * x + math.cos(phi) * y)
arc = Arc(pt(theta), complex(rx, ry), rot, abs(delta) > 180, delta > 0, pt(theta + delta))
if abs(arc.theta - theta) > 1e-6 and abs(abs(arc.theta - theta) - 360) > 1e-6 or abs(arc.delta - delta) > 1e-6:
    print('the constructor did not reproduce theta/delta', arc.theta, arc.delta); raise SystemExit(0)
xmin, xmax, ymin, ymax = arc.bbox()
N = 20000
pts = [pt(theta + delta * i / N) for i in range(N + 1)]          # independent of Arc.point
xs, ys = [p.real for p in pts], [p.imag for p in pts]
tol = 1e-6 * (1 + rx + ry)
out = [n for n, v in (('xmin', xmin - min(xs)), ('xmax', max(xs) - xmax), ('ymin', ymin - min(ys)), ('ymax', max(ys) - ymax)) if v > tol]
if out:
    REPRODUCED('Arc.bbox() of %%r = %%r does not contain the arc (%%s): the arc spans x in [%%r, %%r], y in [%%r, %%r]' %% (arc, (xmin, xmax, ymin, ymax), ','.join(out), min(xs), max(xs), min(ys), max(ys)))
loose = [n for n, v in (('xmin', min(xs) - xmin), ('xmax', xmax - max(xs)), ('ymin', min(ys) - ymin), ('ymax', ymax - max(ys))) if v > 1e-4 * (1 + rx + ry)]
if loose:
    REPRODUCED('Arc.bbox() of %%r = %%r is not tight (%%s): the arc spans x in [%%r, %%r], y in [%%r, %%r]' %% (arc, (xmin, xmax, ymin, ymax), ','.join(loose), min(xs), max(xs), min(ys), max(ys)))
'''

JS = list(range(-6, 6))


def profile_axioms(PF, pts):
    """PF(p) = R cos(p degrees), R > 0, instantiated on the points pts (z3 reals)."""
    ax = [PF(z3.RealVal(0)) > 0]
    consts = [z3.RealVal(180 * j) for j in JS + [6]]
    for j, c in zip(JS + [6], consts):
        ax.append(PF(c) == (PF(z3.RealVal(0)) if j % 2 == 0 else -PF(z3.RealVal(0))))
    allp = list(pts) + consts
    for p in pts:
        ax.append(z3.And(PF(p) <= PF(z3.RealVal(0)), PF(p) >= -PF(z3.RealVal(0))))
    for i, p in enumerate(allp):
        for q in allp[i + 1:]:
            if z3.is_rational_value(p) and z3.is_rational_value(q):
                continue
            for j in JS:
                lo, hi = 180 * j, 180 * (j + 1)
                inside = z3.And(p >= lo, p <= hi, q >= lo, q <= hi)
                if j % 2 == 0:      # decreasing
                    ax.append(z3.Implies(inside, z3.If(p <= q, PF(p) >= PF(q), PF(p) <= PF(q))))
                else:
                    ax.append(z3.Implies(inside, z3.If(p <= q, PF(p) <= PF(q), PF(p) >= PF(q))))
    return ax


def atan2_deg(B, A):
    if A == 0:
        return z3.RealVal(90 if B > 0 else -90)
    a = atan_deg_const(Fraction(B) / Fraction(A))
    return a if A > 0 else a + 180


def fam_arc_bbox(R, rot, radii, sign):
    import svgpathtools.path as P
    OPTS['sympy_normalise'] = True
    OPTS['cmp_clear_den'] = True
    deg, c, s = ROTS[rot]
    rx, ry = RADII[radii]
    R.bound(rotation=rot, radii=radii, delta_sign=sign, theta='[-180,180] symbolic', delta='(0,360) symbolic' if sign > 0 else '(-360,0) symbolic',
            centre='symbolic')
    R.stub('pi -> the angle of 180 degrees (exact degree arithmetic)', 'cos/sin of a symbolic angle -> uninterpreted cosd(degrees)',
           'math.atan of a concrete rational -> real constant enclosed to 1e-11 degrees', 'math.tan(phi) -> rational sin/cos of the shard rotation',
           'min/max -> If-terms', 'Arc state constructed directly (start = point(theta), end = point(theta+delta))')

    def pt_formula(arc, a):
        """the parametrisation at the angle a (degrees), by the documented formula"""
        ca, sa = DA(a).cos(), DA(a).sin()
        x = rx * SR(z3.RealVal(str(c))) * ca - ry * SR(z3.RealVal(str(s))) * sa + arc.center.real
        y = rx * SR(z3.RealVal(str(s))) * ca + ry * SR(z3.RealVal(str(c))) * sa + arc.center.imag
        return SC(x, y)

    def run():
        cx_ = Ctx.cur
        th, de, al = symr('theta'), symr('delta'), symr('alpha')
        ctr = SC(symr('cx'), symr('cy'))
        cx_.assume(th.e >= -180, th.e <= 180)
        if sign > 0:
            cx_.assume(de.e > 0, de.e < 360, al.e >= th.e, al.e <= th.e + de.e)
        else:
            cx_.assume(de.e < 0, de.e > -360, al.e <= th.e, al.e >= th.e + de.e)
        arc = object.__new__(P.Arc)
        arc.radius = complex(rx, ry)
        arc.rotation = deg
        arc.large_arc = None
        arc.sweep = sign > 0
        arc.autoscale_radius = True
        arc.segment_length_hash = None
        arc.segment_length = None
        arc.phi = DA(deg, (c, s))
        arc.rot_matrix = SC(SR(z3.RealVal(str(c))), SR(z3.RealVal(str(s))))
        arc.center = ctr
        arc.theta, arc.delta = th, de
        arc.start = pt_formula(arc, th.e)
        arc.end = pt_formula(arc, th.e + de.e)
        math.tan, math.atan = my_tan, my_atan
        try:
            with patched(P, pi=DA(180), min=sym_min, max=sym_max):
                bb = arc.bbox()
                t = (al - th) / de
                p = arc.point(t)
        finally:
            math.tan, math.atan = _real_tan, _real_atan
        return arc, th, de, al, ctr, bb, p

    A, B = Fraction(rx) * c, -Fraction(ry) * s
    A2, B2 = Fraction(rx) * s, Fraction(ry) * c
    for ctx, (kind, val) in explore(run, maxpaths=20000, logic=None):
        R.path(ctx)
        if kind != 'ok':
            R.unexpected(ctx, 'unexpected %s %r' % (kind, val))
            continue
        arc, th, de, al, ctr, bb, p = val
        Ctx.cur = ctx
        bx, by = atan2_deg(B, A), atan2_deg(B2, A2)
        args = list(ctx.__dict__.get('ang_args', {}).values())
        ax = []
        for x in args:
            ax.append(z3.RealVal(str(A)) * CF(x) + z3.RealVal(str(B)) * CF(x - 90) == PX(z3.simplify(x - bx)))
            ax.append(z3.RealVal(str(A2)) * CF(x) + z3.RealVal(str(B2)) * CF(x - 90) == PY(z3.simplify(x - by)))
        ax += profile_axioms(PX, [z3.simplify(x - bx) for x in args])
        ax += profile_axioms(PY, [z3.simplify(x - by) for x in args])
        xmin, xmax, ymin, ymax = [lift(v).e for v in bb]

        def cex(m, what='containment'):
            inp = (deg, rx, ry, mval(m, ctr.real), mval(m, ctr.imag), mval(m, th), mval(m, de))
            return {'cls': 'Arc.bbox ' + what, 'inputs': dict(zip(('rotation', 'rx', 'ry', 'cx', 'cy', 'theta', 'delta'), inp)),
                    'script': REPLAY % (inp,)}
        lo, hi = (th.e, th.e + de.e) if sign > 0 else (th.e + de.e, th.e)
        # a violation with margin: the arbitrary angle is a critical angle of one coordinate, well inside the sweep
        robust = [zabs_(ctr.real.e) <= 5, zabs_(ctr.imag.e) <= 5, zabs_(de.e) <= 355, al.e - lo >= 25, hi - al.e >= 25,
                  z3.Or(*[al.e == 180 * j + b for j in JS for b in (bx, by)])]
        contains = z3.And(xmin <= p.real.e, p.real.e <= xmax, ymin <= p.imag.e, p.imag.e <= ymax)
        R.ob('contains', ctx, contains, extra=ax, cex=cex, robust=robust + [z3.Not(contains)], timeout_ms=60000)
        # tightness: each side is attained by the arc: at an end point, or at the profile's extreme when its angle is swept

        def swept(beta, parity):
            return z3.Or(*[z3.And(lo <= 180 * j + beta, 180 * j + beta <= hi) for j in JS if j % 2 == parity])
        ends_x, ends_y = [arc.start.real.e, arc.end.real.e], [arc.start.imag.e, arc.end.imag.e]
        cxv, cyv = ctr.real.e, ctr.imag.e
        R0x, R0y = PX(z3.RealVal(0)), PY(z3.RealVal(0))
        tight = z3.And(
            z3.Or(xmax == ends_x[0], xmax == ends_x[1], z3.And(xmax == cxv + R0x, swept(bx, 0))),
            z3.Or(xmin == ends_x[0], xmin == ends_x[1], z3.And(xmin == cxv - R0x, swept(bx, 1))),
            z3.Or(ymax == ends_y[0], ymax == ends_y[1], z3.And(ymax == cyv + R0y, swept(by, 0))),
            z3.Or(ymin == ends_y[0], ymin == ends_y[1], z3.And(ymin == cyv - R0y, swept(by, 1))))
        R.ob('tight', ctx, tight, extra=ax, cex=lambda m: cex(m, 'tightness'), robust=robust[:3] + [z3.Not(tight)], timeout_ms=60000)
        if R.paths % 25 == 1:
            R.sample({'rotation': rot, 'radii': radii, 'decisions': ''.join('TF'[not d[0]] for d in ctx.decisions[:ctx.pos])})
            if ctx.unknown_feas == 0:
                R.witness(ctx, 'path')


def zabs_(e):
    return z3.If(e >= 0, e, -e)
