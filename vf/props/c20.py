"""C20 -- smoothed_path removes kinks without moving the path."""
import z3

from ..symx import (SR, SC, SB, explore, symc, symr, ceq, req, mval, mcval, Ctx, lift, zabs, Abort, tosc, sq)
from ..stubs import NPProxy, patched, sym_min, sym_max

META = {
    'explanation': (
        'smoothed_joint / smoothed_path run for real on symbolic polylines (2 lines open; 3 and 4 lines closed, incl. the case of an '
        'already smooth closing joint) with symbolic maxjointsize and tightness.  Per control path z3 (QF_NRA) decides, with an oracle '
        'that does not use the tangent code of the library: consecutive result segments share end points, their end/start directions '
        '(Line: end-start; Cubic: P1-P0 resp. P3-P2) are parallel with positive dot product (no kink), open paths keep start and end, '
        'closed input gives closed output without a repeated segment, every elbow control point is within maxjointsize/2 of its '
        'corner (convex hull => whole elbow), trimmed lines are sub-segments of the original lines, a one-segment path is returned '
        'unchanged.  Line-cubic joints: the cubic side enters through its end direction only.'),
    'outside': ['cubic-cubic joints (ilength / cropped / radialrange chain: contracts of C07/C09/C13, too heavy to run symbolically here)',
                'paths longer than the bound', '180-degree corners (excluded by the property)', 'rounding'],
    'assumptions': ['corner angles bounded away from 0 and 180 degrees (|sin| >= 0.05)'],
}


def direction_out(seg):
    """direction of travel at t=1 (independent of unit_tangent)"""
    from svgpathtools.path import Line, CubicBezier
    if isinstance(seg, Line):
        return seg.end - seg.start
    return seg.end - seg.control2


def direction_in(seg):
    from svgpathtools.path import Line, CubicBezier
    if isinstance(seg, Line):
        return seg.end - seg.start
    return seg.control1 - seg.start


def cross(a, b):
    return a.real * b.imag - a.imag * b.real


def dot(a, b):
    return a.real * b.real + a.imag * b.imag


REPLAY = '''
from svgpathtools.smoothing import smoothed_path, kinks
pts = %r; closed = %r; mj = %r; tg = %r
segs = [Line(pts[i], pts[i + 1]) for i in range(len(pts) - 1)]
if closed: segs.append(Line(pts[-1], pts[0]))
p = Path(*segs)
try:
    q = smoothed_path(p, maxjointsize=mj, tightness=tg)
except Exception as e:
    REPRODUCED('smoothed_path raised %%r for %%r' %% (e, p))
if not q.iscontinuous(): REPRODUCED('result not continuous: %%r' %% q)
if closed and not q.isclosed(): REPRODUCED('closed input, open output: %%r' %% q)
if not closed and (abs(q.start - p.start) > 1e-9 or abs(q.end - p.end) > 1e-9): REPRODUCED('end points moved')
n = len(q)
for i in range(n if closed else n - 1):
    a, b = q[i], q[(i + 1) %% n]
    da = (a.end - a.start) if isinstance(a, Line) else (a.end - a.control2)
    db = (b.end - b.start) if isinstance(b, Line) else (b.control1 - b.start)
    if abs(da) < 1e-12 or abs(db) < 1e-12: REPRODUCED('degenerate segment in the result: %%r' %% q)
    if abs(da / abs(da) - db / abs(db)) > 1e-6: REPRODUCED('kink between result segments %%d and %%d: directions %%r, %%r; result %%r' %% (i, (i + 1) %% n, da / abs(da), db / abs(db), q))
for s in q:
    for t in (0, 0.25, 0.5, 0.75, 1):
        z = s.point(t)
        d = min(seg.radialrange(z)[0][0] for seg in p)
        if d > mj + 1e-9: REPRODUCED('point %%r of the result is %%r away from the original path (maxjointsize %%r)' %% (z, d, mj))
if len(set((type(s).__name__, s.start, s.end) for s in q)) != len(q): REPRODUCED('a segment is repeated in the result: %%r' %% q)
'''


def fam_polyline(R, npts, closed, smooth_closing=False, concrete=None):
    import svgpathtools.smoothing as S
    import svgpathtools.path as P
    import svgpathtools.misctools as MT
    from svgpathtools.path import Line, Path
    P.np = NPProxy()
    R.bound(first_edge='(0,0)->(4,0) fixed, other vertices symbolic', points=npts, closed=closed, already_smooth_closing_joint=smooth_closing, maxjointsize='symbolic in (0, 4]', tightness='symbolic in (0,2)')
    R.stub('smoothing.min -> If-term', 'disvg -> no-op')

    def run():
        # first edge fixed (0,0)->(4,0); the remaining vertices symbolic (for the smooth closing
        # variant the last vertex lies on the negative real axis, so that the closing joint is smooth)
        V = [SC(0, 0), SC(4, 0)] + [symc('v%d' % i) for i in range(2, npts)]
        if concrete:
            V = [SC(z.real, z.imag) for z in concrete]
        elif smooth_closing:
            V[-1] = SC(-symr('back'), 0)
            Ctx.cur.assume(V[-1].real.e < 0)
        mj, tg = symr('maxjointsize'), symr('tightness')
        cx = Ctx.cur
        cx.assume(mj.e > 0, mj.e <= 4, tg.e > 0, tg.e < 2)
        for v in V:
            cx.assume(zabs(v.real.e) <= 20, zabs(v.imag.e) <= 20)
        n = npts
        edges = [(V[i], V[i + 1]) for i in range(n - 1)] + ([(V[-1], V[0])] if closed else [])
        for a, b in edges:
            d = b - a
            cx.assume((d.real * d.real + d.imag * d.imag).e >= 0.0001)
        # corners bounded away from 0 / 180 degrees, except the closing joint in the smooth_closing variant
        m = len(edges)
        for i in range(m if closed else m - 1):
            d0 = edges[i][1] - edges[i][0]
            d1 = edges[(i + 1) % m][1] - edges[(i + 1) % m][0]
            n0 = d0.real * d0.real + d0.imag * d0.imag
            n1 = d1.real * d1.real + d1.imag * d1.imag
            cr = cross(d0, d1)
            if smooth_closing and closed and i == m - 1:
                cx.assume(cr.e == 0, dot(d0, d1).e > 0)          # exactly smooth closing joint
            elif not concrete:
                cx.assume((cr * cr).e >= (n0 * n1 * 0.0025).e)   # |sin| >= 0.05
        segs = [Line(a, b) for a, b in edges]
        p = Path(*segs)
        with patched(S, min=sym_min, disvg=lambda *a, **k: None):
            try:
                q = S.smoothed_path(p, maxjointsize=mj, tightness=tg)
                r = ('ok', list(q))
            except AssertionError as e:
                raise Abort()
            except Exception as e:
                r = ('exc', e)
        return V, mj, tg, segs, r

    for ctx, (kind, val) in explore(run, maxpaths=200, logic=None):
        if kind == 'abort':
            continue
        R.path(ctx)
        if kind != 'ok':
            R.unexpected(ctx, 'unexpected %s %r' % (kind, val))
            continue
        V, mj, tg, segs, (rk, q) = val
        if R.paths <= 2 and ctx.unknown_feas == 0:
            # not vacuous (paths entered through an undecided feasibility question may legitimately be infeasible: no witness asked there)
            R.witness(ctx, 'path-condition')

        def cex(m):
            pts = [mcval(m, v) for v in V]
            return {'cls': 'smoothed_path on a %s polyline of %d points' % ('closed' if closed else 'open', npts),
                    'inputs': {'pts': str(pts), 'maxjointsize': mval(m, mj), 'tightness': mval(m, tg)},
                    'script': REPLAY % (pts, closed, mval(m, mj), mval(m, tg))}
        ints = []
        for v in ([] if concrete else V[2:]):
            ints += [z3.IsInt(v.real.e), z3.IsInt(v.imag.e)]
        ints += [mj.e == 3, tg.e == 1]
        if rk != 'ok':
            R.ob('no-exception', ctx, z3.BoolVal(False), cex=cex, robust=ints)
            continue
        nq = len(q)
        pairs = list(zip(q, q[1:])) + ([(q[-1], q[0])] if closed else [])
        cont = [ceq(a.end, b.start) for a, b in pairs]
        R.ob('continuous%s' % ('-and-closed' if closed else ''), ctx, z3.And(*cont) if cont else z3.BoolVal(True), cex=cex, robust=ints, timeout_ms=60000)
        nok = []
        for a, b in pairs:
            da, db = direction_out(a), direction_in(b)
            nok.append(z3.And(cross(da, db).e == 0, dot(da, db).e > 0))
        R.ob('no-kinks', ctx, z3.And(*nok) if nok else z3.BoolVal(True), cex=cex, robust=ints, timeout_ms=120000)
        if not closed:
            R.ob('keeps-end-points', ctx, z3.And(ceq(q[0].start, segs[0].start), ceq(q[-1].end, segs[-1].end)), cex=cex, robust=ints)
        # distance: elbow control points within maxjointsize/2 of some original vertex; lines are sub-segments of original lines
        from svgpathtools.path import CubicBezier
        near = []
        for s in q:
            if isinstance(s, CubicBezier):
                alts = []
                for v in V:
                    alts.append(z3.And(*[((pt - v).real * (pt - v).real + (pt - v).imag * (pt - v).imag).e <= (mj * mj / 4).e for pt in s.bpoints()]))
                near.append(z3.Or(*alts))
            else:
                alts = []
                for o in segs:
                    d = o.end - o.start
                    conds = []
                    for pt in (s.start, s.end):
                        w = pt - o.start
                        nd = dot(d, d)
                        conds += [cross(d, w).e == 0, dot(d, w).e >= 0, dot(d, w).e <= nd.e]
                    alts.append(z3.And(*conds))
                near.append(z3.Or(*alts))
        R.ob('stays-within-maxjointsize', ctx, z3.And(*near), cex=cex, robust=ints, timeout_ms=120000)
        # no repeated segment (same object twice)
        R.ob('no-repeated-segment', ctx, z3.BoolVal(len(set(id(s) for s in q)) == nq), cex=cex, robust=ints)
        R.sample({'points': npts, 'closed': closed, 'result': [type(s).__name__ for s in q]})


def fam_single(R):
    import svgpathtools.smoothing as S
    from svgpathtools.path import Line, CubicBezier, Path

    def run():
        a, b = symc('a'), symc('b')
        p = Path(Line(a, b))
        return p, S.smoothed_path(p)
    for ctx, (kind, val) in explore(run, maxpaths=10):
        R.path(ctx, nontrivial=True)
        if kind != 'ok':
            R.unexpected(ctx, 'unexpected %s %r' % (kind, val))
            continue
        p, q = val
        R.ob('single-segment-unchanged', ctx, z3.BoolVal(q is p or (len(q) == 1 and q[0] is p[0])))
        R.sample({'n': 1})


def families(tier):
    M = 'vf.props.c20'
    fams = [('single', M, 'fam_single', {}),
            ('open-3pts', M, 'fam_polyline', {'npts': 3, 'closed': False}),
            ('closed-triangle-concrete', M, 'fam_polyline', {'npts': 3, 'closed': True, 'concrete': [0j, 4 + 0j, 1 + 3j]}),
            ('closed-smooth-closing-concrete', M, 'fam_polyline', {'npts': 4, 'closed': True, 'smooth_closing': True,
                                                                   'concrete': [0j, 4 + 0j, 2 + 3j, -2 + 0j]})]
    # very shallow corners (1e-3 and 3e-3 rad: far above the 1e-5 'already smooth' tolerance, far below the |sin| >= 0.05 of the symbolic families)
    fams.append(('open-shallow-corner-1mrad', M, 'fam_polyline', {'npts': 3, 'closed': False, 'concrete': [0j, 4 + 0j, 8 + 0.004j]}))
    fams.append(('open-shallow-corner-3mrad', M, 'fam_polyline', {'npts': 3, 'closed': False, 'concrete': [0j, 4 + 0j, 8 - 0.012j]}))
    # the elbow construction reads unit_tangent at segment ends (degenerate ends included): shared with C15
    fams.append(('tangent-at-degenerate-end', 'vf.props.c15', 'fam_singular', {'case': 'cubic.t0.P0=P1=P2'}))
    if tier == 'thorough':
        fams.append(('closed-3pts', M, 'fam_polyline', {'npts': 3, 'closed': True}))
        fams.append(('closed-4pts-smooth-closing', M, 'fam_polyline', {'npts': 4, 'closed': True, 'smooth_closing': True}))
        fams.append(('open-4pts', M, 'fam_polyline', {'npts': 4, 'closed': False}))
        fams.append(('closed-4pts', M, 'fam_polyline', {'npts': 4, 'closed': True}))
    return fams
