"""C13 -- radialrange / closest / farthest point."""
import itertools

import numpy as np
import z3

from ..symx import (SR, SC, SB, explore, symc, symr, ceq, req, mval, mcval, Ctx, lift, zabs, Abort, tosc, sq)
from ..stubs import NPProxy, patched
from .c03 import bern, power_coeffs, REPLAY_ORACLE

META = {
    'explanation': (
        'Line.radialrange (closed form) runs on symbolic end points and query point: z3 shows tmin,tmax in [0,1], d=|point(t)-z| and '
        'dmin <= |point(u)-z| <= dmax for every u in [0,1].  bezier_radialrange (degree 2,3): the polynomial handed to np.roots is '
        'captured and shown to be d/dt |B(t)-z|^2; with np.roots stubbed by an arbitrary separated root list the result is shown to be '
        'the min/max of the distance over {0,1} and the returned roots in [0,1], hence (complete-roots contract + extreme value '
        'theorem) global.  Path.radialrange / closest_point_in_path / farthest_point_in_path run on stub segments with symbolic '
        'per-segment answers: global extreme and the index of the segment attaining it.'),
    'outside': ['root-finder accuracy / completeness of np.roots (LAPACK)', 'zero-length Line (division by zero in the closed form)', 'rounding'],
    'assumptions': ['np.roots returns all roots (complete-roots contract), pairwise separated by more than the isclose tolerance',
                    'extreme value theorem (interior extrema are critical points)'],
}


def dist2(a, b):
    d = tosc(a) - tosc(b)
    return d.real * d.real + d.imag * d.imag


REPLAY_RR = REPLAY_ORACLE + '''
ps = %r; z = %r; u = %r
seg = bpoints2bezier(ps)
(dmin, tmin), (dmax, tmax) = seg.radialrange(z)
eps = 1e-7 * (1 + max(abs(p) for p in ps) + abs(z))
if not (0 <= tmin <= 1 and 0 <= tmax <= 1): REPRODUCED('t outside [0,1]: %%r %%r' %% (tmin, tmax))
if abs(dmin - abs(seg.point(tmin) - z)) > eps or abs(dmax - abs(seg.point(tmax) - z)) > eps: REPRODUCED('d != |point(t)-z|')
for uu in [u] + [i / 2000.0 for i in range(2001)]:
    if not 0 <= uu <= 1: continue
    d = abs(bernF(ps, uu) - z)
    if d < dmin - eps or d > dmax + eps:
        REPRODUCED('radialrange(%%r) of %%r = %%r but point(%%r) is at distance %%r' %% (z, seg, ((dmin, tmin), (dmax, tmax)), uu, d))
'''


def fam_line(R):
    from svgpathtools.path import Line
    R.bound(values='unbounded reals, start != end')

    def run():
        a, b, z = symc('a'), symc('b'), symc('z')
        u = symr('u')
        c = Ctx.cur
        c.assume(z3.Not(ceq(a, b)), u.e >= 0, u.e <= 1)
        seg = Line(a, b)
        try:
            r = seg.radialrange(z)
        except ZeroDivisionError:
            raise Abort()
        return a, b, z, u, seg, r

    for ctx, (kind, val) in explore(run, maxpaths=500):
        if kind == 'abort':
            continue
        R.path(ctx)
        if kind != 'ok':
            R.error('unexpected %s %r' % (kind, val))
            continue
        a, b, z, u, seg, ((dmin, tmin), (dmax, tmax)) = val
        dmin, tmin, dmax, tmax = lift(dmin), lift(tmin), lift(dmax), lift(tmax)
        pu = bern([a, b], u)

        def cex(m):
            pts = [mcval(m, a), mcval(m, b)]
            return {'cls': 'Line.radialrange', 'inputs': {'line': str(pts), 'z': str(mcval(m, z)), 'u': mval(m, u)},
                    'script': REPLAY_RR % (pts, mcval(m, z), mval(m, u))}
        ints = []
        for v in (a, b, z):
            ints += [z3.IsInt(v.real.e), z3.IsInt(v.imag.e), v.real.e >= -9, v.real.e <= 9, v.imag.e >= -9, v.imag.e <= 9]
        R.ob('line.t-in-range', ctx, z3.And(tmin.e >= 0, tmin.e <= 1, tmax.e >= 0, tmax.e <= 1), cex=cex, robust=ints)
        R.ob('line.d=|point(t)-z|', ctx, z3.And(dmin.e >= 0, dmax.e >= 0, sq(dmin) == dist2(bern([a, b], tmin), z).e,
                                                  sq(dmax) == dist2(bern([a, b], tmax), z).e), cex=cex, robust=ints)
        R.ob('line.dmin-is-global', ctx, sq(dmin) <= dist2(pu, z).e, cex=cex, robust=ints, timeout_ms=60000)
        R.ob('line.dmax-is-global', ctx, sq(dmax) >= dist2(pu, z).e, cex=cex, robust=ints, timeout_ms=60000)
        R.sample({'decisions': ''.join('TF'[not d[0]] for d in ctx.decisions[:ctx.pos])})


def generic(ps):
    """leading power-basis coefficients of both coordinate polynomials are
    non-zero (no poly1d trimming forks); degenerate shapes: thorough tier"""
    c = power_coeffs(ps)[-1]
    Ctx.cur.assume(c.real.e != 0, c.imag.e != 0)


def fam_bezier_poly(R, deg, degenerate=False):
    """the polynomial handed to np.roots is d/dt |B(t)-z|^2"""
    import svgpathtools.polytools as PT
    import svgpathtools.path as P
    R.bound(degree=deg)
    R.stub('np.roots -> captures its argument, returns no roots')
    C = {2: P.QuadraticBezier, 3: P.CubicBezier}[deg]
    cap = {}

    def run():
        ps = [symc('p%d' % i) for i in range(deg + 1)]
        z = symc('z')
        t = symr('t')
        if not degenerate:
            generic(ps)

        def roots_stub(p):
            cap['p'] = p
            return []
        cap.pop('p', None)
        with patched(PT, np=NPProxy(roots=roots_stub)):
            r = C(*ps).radialrange(z)
        return ps, z, t, cap.get('p'), r

    for ctx, (kind, val) in explore(run, maxpaths=2000):
        R.path(ctx, nontrivial=True)
        if kind != 'ok':
            R.error('unexpected %s %r' % (kind, val))
            continue
        ps, z, t, p, r = val
        (dmin_, tmin_), (dmax_, tmax_) = r
        cexg = lambda m: {'cls': 'bezier_radialrange result', 'inputs': str([mcval(m, q) for q in ps]),
                          'script': REPLAY_RR % ([mcval(m, q) for q in ps], mcval(m, z), 0.5)}
        # whatever route the code took: the reported distances are the distances at the reported parameters
        R.ob('deg%d.d=|point(t)-z|' % deg, ctx, z3.And(sq(lift(dmin_)) == dist2(bern(ps, lift(tmin_)), z).e, sq(lift(dmax_)) == dist2(bern(ps, lift(tmax_)), z).e,
                                                         lift(tmin_).e >= 0, lift(tmin_).e <= 1, lift(tmax_).e >= 0, lift(tmax_).e <= 1),
             cex=cexg, timeout_ms=60000, robust=[z3.And(*[z3.And(zabs(q.real.e) <= 9, zabs(q.imag.e) <= 9) for q in ps])])
        if p is None:
            # the root finder was not consulted on this path: nothing guarantees interior extrema are considered
            R.ob('deg%d.root-finder-consulted' % deg, ctx, z3.BoolVal(False), cex=cexg)
            continue
        co = list(np.asarray(p.coeffs if hasattr(p, 'coeffs') else p))
        got = lift(0)
        for cf in co:
            got = got * t + cf
        # oracle: derivative of |B(t)-z|^2 = 2 Re( (B(t)-z) * conj(B'(t)) )
        c = power_coeffs(ps)
        Bt = SC(0, 0)
        dB = SC(0, 0)
        for j, cj in enumerate(c):
            Bt = Bt + cj * (t ** j)
            if j >= 1:
                dB = dB + cj * j * (t ** (j - 1))
        w = Bt - z
        want = 2 * (w.real * dB.real + w.imag * dB.imag)
        R.ob('deg%d.polynomial-is-derivative-of-squared-distance' % deg, ctx, req(got, want), timeout_ms=120000,
             cex=lambda m: {'cls': 'bezier_radialrange polynomial', 'inputs': str(m)[:200],
                            'script': REPLAY_RR % ([mcval(m, q) for q in ps], mcval(m, z), 0.5)})
        R.sample({'degree': deg, 'captured_degree': len(co) - 1})


def fam_bezier_select(R, deg, nreal, degenerate=False):
    """min/max selection over {0,1} + returned roots.  The segment's point() is
    replaced by an UNINTERPRETED function F(t) here: the selection logic is then
    shown correct for any curve (that point() is the Bernstein curve is C03, that
    the polynomial is the right one is the bezier-poly family)."""
    import svgpathtools.polytools as PT
    import svgpathtools.path as P
    R.bound(degree=deg, real_roots_returned=nreal, root_separation=1e-3)
    R.stub('np.roots -> %d symbolic real roots (pairwise separated) + complex rest' % nreal,
           'segment.point -> uninterpreted F(t) (selection logic only)')
    C = {2: P.QuadraticBezier, 3: P.CubicBezier}[deg]
    total = 2 * deg - 1
    g = z3.Function('dist', z3.RealSort(), z3.RealSort())     # arbitrary non-negative distance profile
    zq = [None]

    def F(t):
        gt = g(lift(t).e)
        Ctx.cur.assume(gt >= 0)
        return zq[0] + SC(SR(gt), 0)
    origpoint = C.point

    def run():
        ps = [symc('p%d' % i) for i in range(deg + 1)]
        z = symc('z')
        zq[0] = z
        c = Ctx.cur
        generic(ps)
        rs = [symr('r%d' % i) for i in range(nreal)]
        for i, a in enumerate(rs):
            for b in rs[i + 1:]:
                c.assume(zabs(a.e - b.e) >= 1e-3)
        roots = [SC(r, 0) for r in rs] + [SC(symr('cr%d' % i), 1) for i in range(total - nreal)]
        C.point = lambda self, t: F(t)
        try:
            with patched(PT, np=NPProxy(roots=lambda p: list(roots))):
                r = C(*ps).radialrange(z)
        finally:
            C.point = origpoint
        return ps, z, rs, r

    for ctx, (kind, val) in explore(run, maxpaths=20000, logic=None):
        R.path(ctx)
        if kind != 'ok':
            R.error('unexpected %s %r' % (kind, val))
            continue
        ps, z, rs, ((dmin, tmin), (dmax, tmax)) = val
        dmin, tmin, dmax, tmax = lift(dmin), lift(tmin), lift(dmax), lift(tmax)
        cands = [lift(0), lift(1)] + rs

        def cex(m):
            rv = [mval(m, r) for r in rs]
            return {'cls': 'bezier_radialrange selection', 'inputs': {'roots': rv},
                    'script': REPLAY_SELECT % (deg, rv)}
        R.ob('deg%d.t-is-a-candidate-in-range' % deg, ctx,
             z3.And(tmin.e >= 0, tmin.e <= 1, tmax.e >= 0, tmax.e <= 1,
                    z3.Or(*[tmin.e == c_.e for c_ in cands]), z3.Or(*[tmax.e == c_.e for c_ in cands])), cex=cex)
        R.ob('deg%d.d=|point(t)-z|' % deg, ctx,
             z3.And(dmin.e == g(tmin.e), dmax.e == g(tmax.e)), cex=cex)
        conj_min, conj_max = [], []
        for c_ in cands:
            inr = z3.And(c_.e >= 0, c_.e <= 1)
            dd = g(c_.e)
            conj_min.append(z3.Implies(z3.And(inr, dd >= 0), dmin.e <= dd))
            conj_max.append(z3.Implies(z3.And(inr, dd >= 0), dmax.e >= dd))
        R.ob('deg%d.dmin-over-all-candidates' % deg, ctx, z3.And(*conj_min), cex=cex)
        R.ob('deg%d.dmax-over-all-candidates' % deg, ctx, z3.And(*conj_max), cex=cex)
        if R.paths % 200 == 1:
            R.sample({'degree': deg, 'real_roots': nreal, 'decisions': ''.join('TF'[not d[0]] for d in ctx.decisions[:ctx.pos])})


REPLAY_SELECT = '''
# the selection logic with np.roots returning exactly the solver's root list, on a few concrete curves
import svgpathtools.polytools as PT, random
deg = %d; roots_real = %r
rnd = random.Random(5)
real_roots = np.roots
for trial in range(40):
    ps = [complex(rnd.uniform(-5, 5), rnd.uniform(-5, 5)) for _ in range(deg + 1)]
    z = complex(rnd.uniform(-5, 5), rnd.uniform(-5, 5))
    seg = bpoints2bezier(ps)
    np.roots = lambda p: np.array(list(roots_real) + [1j] * (2*deg - 1 - len(roots_real)))
    try:
        (dmin, tmin), (dmax, tmax) = seg.radialrange(z)
    finally:
        np.roots = real_roots
    cands = [0.0, 1.0] + [r for r in roots_real if 0 <= r <= 1]
    ds = [abs(seg.point(c) - z) for c in cands]
    if not (0 <= tmin <= 1 and 0 <= tmax <= 1): REPRODUCED('t outside [0,1]: %%r' %% ((tmin, tmax),))
    if abs(dmin - min(ds)) > 1e-9 or abs(dmax - max(ds)) > 1e-9 or abs(abs(seg.point(tmin) - z) - dmin) > 1e-9 or abs(abs(seg.point(tmax) - z) - dmax) > 1e-9:
        REPRODUCED('candidates %%r have distances %%r but radialrange returned %%r' %% (cands, ds, ((dmin, tmin), (dmax, tmax))))
'''


class RSeg:
    def __init__(self, k):
        self.k = k
        self.dmin, self.tmin, self.dmax, self.tmax = symr('dmin%d' % k), symr('tmin%d' % k), symr('dmax%d' % k), symr('tmax%d' % k)
        self.start = symc('a%d' % k)
        self.end = symc('b%d' % k)

    def radialrange(self, origin, **kw):
        return (self.dmin, self.tmin), (self.dmax, self.tmax)


REPLAY_PATH = '''
segs = %r
z = %r
p = Path(*[Line(a, b) for a, b in segs])
(dmin, tmin, kmin), (dmax, tmax, kmax) = p.radialrange(z)
per = [s.radialrange(z) for s in p]
gmin = min(r[0][0] for r in per); gmax = max(r[1][0] for r in per)
if kmin is None or kmax is None: REPRODUCED('no segment index returned: %%r' %% (p.radialrange(z),))
if abs(dmin - gmin) > 1e-9 or abs(dmax - gmax) > 1e-9: REPRODUCED('path radialrange %%r but per-segment extremes are %%r / %%r' %% (p.radialrange(z), gmin, gmax))
if abs(abs(p[kmin].point(tmin) - z) - dmin) > 1e-9 or abs(abs(p[kmax].point(tmax) - z) - dmax) > 1e-9: REPRODUCED('index/t do not attain the distance')
if closest_point_in_path(z, p) != p.radialrange(z)[0] or farthest_point_in_path(z, p) != p.radialrange(z)[1]: REPRODUCED('closest/farthest_point_in_path disagree')
# the same reduction on paths that contain closed loops (start == end) and exactly-on-path query points
loop = CubicBezier(10+0j, 16+6j, 4+6j, 10+0j)
for q_, zz in ((Path(Line(0j, 10+0j), loop, Line(10+0j, 20+0j)), 10+5j), (Path(loop), 10+9j), (Path(Line(0j, 4+0j), Line(4+0j, 4+30j)), 4+0j)):
    (a, ta, ka), (b, tb, kb) = q_.radialrange(zz)
    per = [s_.radialrange(zz) for s_ in q_]
    if ka is None or kb is None or abs(a - min(r_[0][0] for r_ in per)) > 1e-9 or abs(b - max(r_[1][0] for r_ in per)) > 1e-9:
        REPRODUCED('Path.radialrange(%%r) of %%r = %%r; per-segment results %%r' %% (zz, q_, q_.radialrange(zz), per))
'''


def fam_path(R, n):
    from svgpathtools.path import Path, closest_point_in_path, farthest_point_in_path
    import svgpathtools.path as P
    P.np = NPProxy()
    R.bound(n=n)
    R.stub('segment.radialrange -> symbolic ((dmin_k,tmin_k),(dmax_k,tmax_k)) with 0 <= dmin_k <= dmax_k')

    def run():
        segs = [RSeg(k) for k in range(n)]
        c = Ctx.cur
        for s in segs:
            c.assume(s.dmin.e >= 0, s.dmin.e <= s.dmax.e)
        # a path has positive extent: some point is at positive distance
        c.assume(z3.Or(*[s.dmax.e > 0 for s in segs]))
        p = Path(*segs)
        z = symc('z')
        r = p.radialrange(z)
        cl = closest_point_in_path(z, p)
        fa = farthest_point_in_path(z, p)
        return segs, r, cl, fa

    probed = []
    for ctx, (kind, val) in explore(run, maxpaths=3000):
        R.path(ctx)
        if kind != 'ok':
            # the reduction asked an opaque segment for something other than radialrange(): outside the model.  Probe the real
            # code on fixed paths (lines; closed Bezier loops) before giving up: a reproduction is a confirmed counterexample.
            if not probed and R.probe('n%d.reduction-consults-more-than-radialrange' % n,
                                      {'cls': 'Path.radialrange reduction', 'inputs': {'unexpected': '%s %r' % (kind, val)},
                                       'script': REPLAY_PATH % ([(1 + 0j, 2 + 0j), (0.5j, 3j)], 0j)}):
                probed.append(1)
            if not probed:
                R.error('unexpected %s %r' % (kind, val))
            continue
        segs, (gmin, gmax), cl, fa = val

        def cex(m):
            # realise as lines: segment k spans distances [dmin_k, dmax_k] from z = 0 along a ray
            import cmath
            ls = []
            for k, s in enumerate(segs):
                a, b = mval(m, s.dmin), mval(m, s.dmax)
                ray = cmath.exp(1j * (0.7 + 1.3 * k))
                ls.append((a * ray, b * ray if b > a else (a + 0.0) * ray))
            return {'cls': 'Path.radialrange reduction', 'inputs': {'segment distance ranges': [(mval(m, s.dmin), mval(m, s.dmax)) for s in segs]},
                    'script': REPLAY_PATH % (ls, 0j)}
        dmin, tmin, kmin = gmin
        dmax, tmax, kmax = gmax
        R.ob('n%d.indices-present' % n, ctx, z3.BoolVal(kmin is not None and kmax is not None), cex=cex,
             robust=[z3.And(*[s.dmax.e > s.dmin.e + 1 for s in segs])])
        if kmin is None or kmax is None:
            continue
        dmin, dmax = lift(dmin), lift(dmax)
        R.ob('n%d.global-min' % n, ctx, z3.And(*[dmin.e <= s.dmin.e for s in segs]), cex=cex)
        R.ob('n%d.global-max' % n, ctx, z3.And(*[dmax.e >= s.dmax.e for s in segs]), cex=cex)
        R.ob('n%d.attained-by-index' % n, ctx, z3.And(req(dmin, segs[kmin].dmin), req(lift(tmin), segs[kmin].tmin),
                                                      req(dmax, segs[kmax].dmax), req(lift(tmax), segs[kmax].tmax)), cex=cex)
        R.ob('n%d.closest/farthest' % n, ctx, z3.BoolVal(cl is gmin or tuple(cl) == tuple(gmin)) if False else
             z3.And(req(lift(cl[0]), dmin), z3.BoolVal(cl[2] == kmin), req(lift(fa[0]), dmax), z3.BoolVal(fa[2] == kmax)), cex=cex)
        if R.paths % 20 == 1:
            R.sample({'n': n, 'argmin': kmin, 'argmax': kmax})


def families(tier):
    M = 'vf.props.c13'
    fams = [('line', M, 'fam_line', {})]
    fams += [('bezier-poly-deg%d' % d, M, 'fam_bezier_poly', {'deg': d}) for d in (2, 3)]
    fams += [('bezier-select-deg2-r%d' % k, M, 'fam_bezier_select', {'deg': 2, 'nreal': k}) for k in ((0, 1, 2) if tier == 'quick' else (0, 1, 2, 3))]
    fams += [('bezier-select-deg3-r%d' % k, M, 'fam_bezier_select', {'deg': 3, 'nreal': k}) for k in ((0, 1) if tier == 'quick' else (0, 1, 2, 3, 4))]
    fams += [('path-n%d' % n, M, 'fam_path', {'n': n}) for n in (1, 2, 3)]
    if tier == 'thorough':
        fams += [('bezier-poly-deg%d-degenerate' % d, M, 'fam_bezier_poly', {'deg': d, 'degenerate': True}) for d in (2, 3)]

    return fams
