"""C09 -- reversed / split / cropped trace the same curve under the documented
parameter map."""
import z3

from ..symx import (SR, SC, SB, explore, symc, symr, ceq, req, mval, mcval, Ctx, lift, zabs, Abort)
from ..stubs import NPProxy, patched
from .c03 import bern, REPLAY_ORACLE

META = {
    'explanation': (
        'Line/Quadratic/Cubic reversed, split, cropped run on symbolic control points and parameters; z3 (QF_NRA) shows '
        'reversed().point(u)=point(1-u), split pieces = point(u t) / point(t+u(1-t)) meeting at point(t), cropped(t0,t1).point(u) = '
        'point(t0+u(t1-t0)) for t0=0, t1=1 and for the interior case, where crop_bezier re-locates t1 through radialrange -> '
        'polyroots01 -> np.roots (stub: a list of symbolic roots that contains the true parameter; that the polynomial handed '
        'to np.roots really vanishes there is its own obligation).  Path.reversed / Path.cropped run on stub segments: the '
        'result is compared piece by piece with an independent measure/adjacency oracle, including wrap-around crops of closed '
        'paths and crop points on joints.'),
    'outside': ['Arc pieces: reversed (same ellipse, swapped angles) and cropped (flag rule, end points) are decided; that an Arc built from those parameters traces the sub-arc is C04', 'equality of lengths for real curves (C06)',
                'rounding in the re-located t1', 'interior crop of curves at a self-intersection point (excluded: minimiser not unique)'],
    'assumptions': ['np.roots contract: returned list contains the real root u* in [0,1] (complete roots), roots pairwise separated',
                    'Path.cropped tolerance: positions compared up to 1e-6 (np.isclose joint snapping)'],
}

NAMES = {1: 'Line', 2: 'QuadraticBezier', 3: 'CubicBezier'}


def cls_of(deg):
    from svgpathtools.path import Line, QuadraticBezier, CubicBezier
    return {1: Line, 2: QuadraticBezier, 3: CubicBezier}[deg]


REPLAY_SEG = REPLAY_ORACLE + '''
ps = %r; t = %r; u = %r; t0 = %r; t1 = %r
seg = %s(*ps)
tol = 1e-7 * max(1.0, max(abs(p) for p in ps))
bad = []
def chk(nm, got, want):
    if abs(complex(got) - complex(want)) > tol: bad.append((nm, got, want))
chk('reversed', seg.reversed().point(u), bernF(ps, 1-u))
l, r = seg.split(t)
chk('split.left', l.point(u), bernF(ps, u*t)); chk('split.right', r.point(u), bernF(ps, t+u*(1-t))); chk('split.meet', l.end, r.start)
chk('split.meet=point', l.end, bernF(ps, t))
if 0 <= t0 < t1 <= 1:
    try:
        c = seg.cropped(t0, t1)
        chk('cropped', c.point(u), bernF(ps, t0+u*(t1-t0)))
    except Exception as e:
        bad.append(('cropped raised', repr(e), None))
if bad: REPRODUCED('%s: %%r' %% (bad[:2],))
'''


def render_seg(deg, name, ps, m, t, u, t0, t1):
    pts = [mcval(m, p) for p in ps]
    return {'cls': '%s.%s' % (NAMES[deg], name),
            'inputs': {'ps': [str(p) for p in pts], 't': mval(m, t), 'u': mval(m, u), 't0': mval(m, t0), 't1': mval(m, t1)},
            'script': REPLAY_SEG % (pts, mval(m, t), mval(m, u), mval(m, t0), mval(m, t1), NAMES[deg], NAMES[deg])}


def fam_segment(R, deg):
    R.bound(degree=deg)

    def run():
        ps = [symc('p%d' % i) for i in range(deg + 1)]
        t, u, t0, t1 = symr('t'), symr('u'), symr('t0'), symr('t1')
        c = Ctx.cur
        c.assume(t0.e > 0, t0.e < t1.e, t1.e < 1)
        seg = cls_of(deg)(*ps)
        out = []
        out.append(('reversed', seg.reversed().point(u), bern(ps, 1 - u)))
        out.append(('reversed.twice', seg.reversed().reversed().point(u), bern(ps, u)))
        l, r = seg.split(t)
        out.append(('split.left', l.point(u), bern(ps, u * t)))
        out.append(('split.right', r.point(u), bern(ps, t + u * (1 - t))))
        out.append(('split.meet', l.end, r.start))
        out.append(('split.meet=point', l.end, bern(ps, t)))
        out.append(('split.type', type(l) is type(seg) and type(r) is type(seg), True))
        c0 = seg.cropped(0, t1)
        out.append(('cropped(0,t1)', c0.point(u), bern(ps, u * t1)))
        c1 = seg.cropped(t0, 1)
        out.append(('cropped(t0,1)', c1.point(u), bern(ps, t0 + u * (1 - t0))))
        if deg == 1:
            ci = seg.cropped(t0, t1)
            out.append(('cropped(t0,t1)', ci.point(u), bern(ps, t0 + u * (t1 - t0))))
        return ps, (t, u, t0, t1), out

    for ctx, (kind, val) in explore(run, maxpaths=200):
        R.path(ctx, nontrivial=True)
        if kind != 'ok':
            R.error('unexpected %s %r' % (kind, val))
            continue
        ps, (t, u, t0, t1), out = val
        for name, got, want in out:
            if isinstance(got, bool):
                R.ob('%s.%s' % (NAMES[deg], name), ctx, z3.BoolVal(got == want))
                continue
            R.ob('%s.%s' % (NAMES[deg], name), ctx, ceq(got, want), timeout_ms=60000,
                 cex=lambda m, name=name: render_seg(deg, name.split('(')[0], ps, m, t, u, t0, t1))
        R.sample({'class': NAMES[deg], 'obligations': [n for n, _, _ in out]})


def fam_interior_crop(R, deg):
    """crop_bezier interior case.  crop_bezier = split at t0, re-locate point(t1)
    on the trimmed curve through radialrange (global distance minimiser: C13),
    split there.  Here radialrange of the trimmed segment is replaced by its
    contract -- it returns the parameter u* at which the trimmed curve passes
    through the queried point (unique unless that point is a self-intersection)
    -- and the real crop_bezier/split code is checked to compose correctly and
    to query the right point."""
    import svgpathtools.path as P
    R.bound(degree=deg)
    R.stub('radialrange(pt) of the trimmed segment -> ((0,u*),.) with u* the parameter of pt on the trimmed curve (C13 contract); the queried point is checked')
    C = cls_of(deg)
    orig = C.radialrange

    def run():
        ps = [symc('p%d' % i) for i in range(deg + 1)]
        u, t0, t1 = symr('u'), symr('t0'), symr('t1')
        c = Ctx.cur
        c.assume(t0.e > 0, t0.e < t1.e, t1.e < 1)
        ustar = (t1 - t0) / (1 - t0)
        asked = []

        def rr(self, origin, **kw):
            asked.append((self, origin))
            return (lift(0), ustar), (lift(1), lift(0))
        C.radialrange = rr
        try:
            seg = C(*ps)
            cr = seg.cropped(t0, t1)
        finally:
            C.radialrange = orig
        return ps, (u, t0, t1, ustar), cr, asked

    for ctx, (kind, val) in explore(run, maxpaths=200):
        R.path(ctx, nontrivial=True)
        if kind != 'ok':
            R.error('unexpected %s %r' % (kind, val))
            continue
        ps, (u, t0, t1, ustar), cr, asked = val
        want = bern(ps, t0 + u * (t1 - t0))
        cexf = lambda m: render_seg(deg, 'cropped.interior', ps, m, symr('t'), u, t0, t1)
        R.ob('%s.cropped(t0,t1).interior' % NAMES[deg], ctx, ceq(cr.point(u), want), timeout_ms=60000, cex=cexf)
        R.ob('%s.cropped.interior.asks-radialrange-once' % NAMES[deg], ctx, z3.BoolVal(len(asked) == 1), cex=cexf)
        if len(asked) == 1:
            tr, origin = asked[0]
            R.ob('%s.cropped.interior.queries-point(t1)' % NAMES[deg], ctx, ceq(origin, bern(ps, t1)), cex=cexf)
            R.ob('%s.cropped.interior.on-trimmed-curve' % NAMES[deg], ctx, ceq(tr.point(u), bern(ps, t0 + u * (1 - t0))), cex=cexf)
            R.ob('%s.cropped.interior.u*-is-the-parameter' % NAMES[deg], ctx, ceq(tr.point(ustar), bern(ps, t1)), cex=cexf)
        R.sample({'class': NAMES[deg], 'composition': 'split(t0)[1].split(u*)[0], u*=(t1-t0)/(1-t0)'})


# ----------------------------------------------------------------------------
# Path level (stub segments)
# ----------------------------------------------------------------------------
class Piece:
    def __init__(self, k, a, b, rev=False):
        self.k, self.a, self.b, self.rev = k, a, b, rev
        self.start = ('pt', k, a)
        self.end = ('pt', k, b)

    def __repr__(self):
        return 'Piece(%d,%s,%s)' % (self.k, self.a, self.b)


class PSeg:
    def __init__(self, k):
        self.k = k
        self.l = symr('l%d' % k)
        self.start = symc('a%d' % k)
        self.end = symc('b%d' % k)

    def length(self, t0=0, t1=1, error=None, min_depth=None):
        return self.l * (lift(t1) - lift(t0))

    def cropped(self, t0, t1):
        return Piece(self.k, t0, t1)

    def reversed(self):
        return Piece(self.k, 1, 0, rev=True)

    def __repr__(self):
        return 'seg%d' % self.k


def piece_of(x):
    if isinstance(x, Piece):
        return x
    return Piece(x.k, 0, 1)     # a whole original segment kept


def fam_path_cropped(R, n, wrap):
    import svgpathtools.path as P
    from svgpathtools.path import Path
    P.np = NPProxy()
    R.bound(n=n, wrap_around=wrap, position_tolerance=2.5e-5)
    R.stub('segment.cropped(a,b) -> Piece(k,a,b)', 'segment.length -> l_k*(t1-t0) (arc-length parametrised stub)')

    def run():
        segs = [PSeg(k) for k in range(n)]
        c = Ctx.cur
        c.assume(*[s.l.e >= 0.5 for s in segs], *[s.l.e <= 2 for s in segs])
        T0, T1 = symr('T0'), symr('T1')
        if wrap:
            c.assume(T1.e >= 0, T1.e < T0.e, T0.e <= 1, z3.Not(z3.And(T0.e == 1, T1.e == 0)))
            for i in range(n):
                c.assume(ceq(segs[i].end, segs[(i + 1) % n].start))
        else:
            c.assume(T0.e >= 0, T0.e < T1.e, T1.e <= 1)
        p = Path(*segs)
        try:
            cr = list(p.cropped(T0, T1))
        except AssertionError:
            raise Abort()
        return segs, T0, T1, cr

    for ctx, (kind, val) in explore(run, maxpaths=20000):
        if kind == 'abort':
            continue
        R.path(ctx)
        if kind != 'ok':
            R.error('unexpected %s %r' % (kind, val))
            continue
        segs, T0, T1, cr = val
        pieces = [piece_of(x) for x in cr]
        L = sum((s.l for s in segs[1:]), segs[0].l)
        meas = lift(0)
        for pc_ in pieces:
            meas = meas + segs[pc_.k].l * (lift(pc_.b) - lift(pc_.a))
        want = (T1 - T0) * L if not wrap else (1 - T0 + T1) * L
        tol = 2.5e-5     # Path.cropped snaps crop points to joints with np.isclose (rtol 1e-5, in t units)

        def near_joint(m):
            ls = [mval(m, s.l) for s in segs]
            tot = sum(ls)
            if wrap and (mval(m, T1) == 0.0 or mval(m, T0) == 1.0):
                return True
            for Tv in (mval(m, T0), mval(m, T1)):
                acc = 0.0
                for l in ls:
                    for edge in (acc, acc + l):
                        if abs(Tv * tot - edge) <= 3e-5 * l and 0 < Tv < 1 or (Tv in (0.0, 1.0) and False):
                            return True
                    acc += l
                if 0 < Tv * tot <= 3e-5 * ls[0] or 0 < tot - Tv * tot <= 3e-5 * ls[-1]:
                    return True
            return False

        def cex(m):
            ls = [mval(m, s.l) for s in segs]
            cls = 'Path.cropped pieces'
            if near_joint(m):
                cls = 'Path.cropped: crop point inside the np.isclose snapping window of a joint or path end'
            return {'cls': cls, 'inputs': {'lengths': ls, 'T0': mval(m, T0), 'T1': mval(m, T1), 'wrap': wrap},
                    'script': REPLAY_PCROP % (ls, mval(m, T0), mval(m, T1), wrap)}
        # prefer counterexamples whose crop points are well inside segments
        away = []
        for Tq in (T0, T1):
            acc = lift(0)
            for sg in segs:
                for edge in (acc, acc + sg.l):
                    away.append(z3.Or(zabs(Tq.e * L.e - edge.e) >= 0.01, z3.And(not wrap, z3.Or(Tq.e == 0, Tq.e == 1))))
                acc = acc + sg.l
        robust = [zabs(meas.e - want.e) > 0.01] + away
        R.ob('n%d.measure' % n, ctx, zabs(meas.e - want.e) <= tol * L.e, cex=cex, robust=robust)
        # adjacency of consecutive pieces and non-degenerate orientation
        adj = []
        for x, y in zip(pieces, pieces[1:]):
            adj.append(z3.And(zabs(lift(x.b).e - 1) <= tol, zabs(lift(y.a).e) <= tol))
            adj.append(z3.BoolVal(y.k == (x.k + 1) % n))
        for x in pieces:
            adj.append(lift(x.a).e <= lift(x.b).e)
        R.ob('n%d.adjacent-in-order' % n, ctx, z3.And(*adj) if adj else z3.BoolVal(True), cex=cex, robust=away)
        # start / end location: cumulative position of first piece start == T0*L (mod joints)
        cum = lambda k, a: sum((s.l for s in segs[:k]), lift(0)) + segs[k].l * lift(a)
        s0 = cum(pieces[0].k, pieces[0].a)
        e1 = cum(pieces[-1].k, pieces[-1].b)
        start_ok = zabs(s0.e - T0.e * L.e) <= tol * L.e
        end_ok = zabs(e1.e - T1.e * L.e) <= tol * L.e
        if wrap:
            start_ok = z3.Or(start_ok, zabs(s0.e - (T0.e - 1) * L.e) <= tol * L.e)
            end_ok = z3.Or(end_ok, zabs(e1.e - (T1.e + 1) * L.e) <= tol * L.e)
        R.ob('n%d.starts-at-T0' % n, ctx, start_ok, cex=cex, robust=away)
        R.ob('n%d.ends-at-T1' % n, ctx, end_ok, cex=cex, robust=away)
        R.sample({'n': n, 'wrap': wrap, 'pieces': [(q.k, str(q.a)[:20], str(q.b)[:20]) for q in pieces]})


REPLAY_PCROP = '''
ls = %r; T0 = %r; T1 = %r; wrap = %r
n = len(ls)
if wrap:
    # every segment is a cubic loop from 0 back to 0 whose arc length is the requested l_k:
    # the path is continuous and closed whatever the lengths are
    import cmath
    unit = CubicBezier(0j, 1+1j, -1+1j, 0j).length()
    segs = []
    for k, l in enumerate(ls):
        s_ = l / unit; r_ = cmath.exp(0.9j * k)
        segs.append(CubicBezier(0j, s_*(1+1j)*r_, s_*(-1+1j)*r_, 0j))
else:
    pts = [0j]
    for l in ls: pts.append(pts[-1] + l * (1j if len(pts) %% 2 else 1))
    segs = [Line(pts[i], pts[i+1]) for i in range(n)]
p = Path(*segs)
try:
    c = p.cropped(T0, T1)
except Exception as e:
    REPRODUCED('Path.cropped(%%r,%%r) raised %%r' %% (T0, T1, e))
want = p.length(T0, T1) if not wrap else p.length(T0, 1) + p.length(0, T1)
got = c.length()
if abs(got - want) > 1e-5 * p.length(): REPRODUCED('cropped(%%r,%%r) has length %%r, path.length over the same range is %%r; pieces %%r' %% (T0, T1, got, want, c))
if abs(c.start - p.point(T0)) > 1e-6 or abs(c.end - p.point(T1)) > 1e-6: REPRODUCED('cropped path does not start/end at point(T0)/point(T1)')
if not c.iscontinuous(): REPRODUCED('cropped path is not continuous: %%r' %% c)
'''


def fam_path_reversed(R, n):
    from svgpathtools.path import Path
    R.bound(n=n)

    def run():
        segs = [PSeg(k) for k in range(n)]
        p = Path(*segs)
        return segs, list(p.reversed())

    for ctx, (kind, val) in explore(run, maxpaths=50):
        R.path(ctx, nontrivial=True)
        if kind != 'ok':
            R.error('unexpected %s %r' % (kind, val))
            continue
        segs, rv = val
        ok = len(rv) == n and all(isinstance(x, Piece) and x.rev and x.k == n - 1 - i for i, x in enumerate(rv))
        R.obligations += 1
        if ok:
            R.discharged += 1
        else:
            R.direct_cex('n%d.reversed-order' % n, {'cls': 'Path.reversed order', 'inputs': n, 'script': '''
p = Path(*[Line(complex(i, 0), complex(i + 1, i)) for i in range(%d)])
r = p.reversed()
want = [s.reversed() for s in p][::-1]
if list(r) != want: REPRODUCED('Path.reversed() = %%r' %% r)
''' % n})
        R.sample({'n': n, 'reversed': [x.k for x in rv if isinstance(x, Piece)]})


def fam_reversed_after_query(R, n):
    """Path.reversed() of a path whose length cache is populated: T2t/point of the result vs a fresh Path of the same segments"""
    from svgpathtools.path import Path
    import svgpathtools.path as P
    from .c05 import StubSeg
    P.np = NPProxy()
    R.bound(n=n)
    R.stub('segment.length -> free positive real; segment.point -> uninterpreted; segment.reversed() -> a stub of the same length')

    class RS(StubSeg):
        def reversed(self):
            r = RS.__new__(RS)
            r.__dict__.update(self.__dict__)
            r.start, r.end = self.end, self.start
            fx, fy = self.fx, self.fy
            r.fx = lambda t: fx(1 - t)
            r.fy = lambda t: fy(1 - t)
            return r

    def run():
        segs = [RS(k) for k in range(n)]
        c = Ctx.cur
        c.assume(*[s_.l.e > 0 for s_ in segs])
        T = symr('T')
        c.assume(T.e > 0, T.e < 1)
        p = Path(*segs)
        p.length()
        p.point(T)
        r = p.reversed()
        fresh = Path(*list(r))
        # the original must be untouched by reversed() (no cached list shared with the copy)
        orig_after, orig_fresh = p.T2t(T), Path(*segs).T2t(T)
        return segs, T, r.T2t(T), fresh.T2t(T), r.length(), fresh.length(), orig_after, orig_fresh

    for ctx, (kind, val) in explore(run, maxpaths=2000):
        R.path(ctx)
        if kind != 'ok':
            R.unexpected(ctx, 'unexpected %s %r' % (kind, val))
            continue
        segs, T, (k1, t1), (k2, t2), l1, l2, (k3, t3), (k4, t4) = val

        def cex(m):
            ls = [mval(m, s_.l) for s_ in segs]
            return {'cls': 'Path.reversed() of a queried path', 'inputs': {'lengths': ls, 'T': mval(m, T)}, 'script': REPLAY_REVQ % (ls, mval(m, T))}
        R.ob('n%d.reversed-after-query' % n, ctx, z3.And(z3.BoolVal(k1 == k2), req(t1, t2), req(l1, l2)), cex=cex,
             robust=[z3.And(*[z3.And(s_.l.e >= 1, s_.l.e <= 9) for s_ in segs])])
        R.ob('n%d.original-unchanged-by-reversed' % n, ctx, z3.And(z3.BoolVal(k3 == k4), req(t3, t4)), cex=cex,
             robust=[z3.And(*[z3.And(s_.l.e >= 1, s_.l.e <= 9) for s_ in segs])])
        if R.paths % 10 == 1:
            R.sample({'n': n, 'segment': k1})


REPLAY_REVQ = '''
ls = %r; T = %r
segs = []; x = 0.0
for i, l in enumerate(ls):
    segs.append(Line(complex(x, 0), complex(x + l, 0))); x += l
p = Path(*segs)
p.length(); p.point(T)
r = p.reversed()
q = Path(*[Line(s.start, s.end) for s in segs])          # never queried, never reversed
for TT in (T, 0.1, 0.35, 0.6, 0.9):
    if abs(r.point(TT) - q.point(1 - TT)) > 1e-9 * (1 + x): REPRODUCED('after length(): reversed().point(%%r) = %%r but point(%%r) = %%r (segment lengths %%r)' %% (TT, r.point(TT), 1 - TT, q.point(1 - TT), ls))
    if abs(p.point(TT) - q.point(TT)) > 1e-9 * (1 + x): REPRODUCED('reversed() changed the original: point(%%r) = %%r, was %%r (segment lengths %%r)' %% (TT, p.point(TT), q.point(TT), ls))
'''


def families(tier):
    M = 'vf.props.c09'
    fams = [('segment-deg%d' % d, M, 'fam_segment', {'deg': d}) for d in (1, 2, 3)]
    fams.append(('interior-crop-deg2', M, 'fam_interior_crop', {'deg': 2}))
    fams.append(('interior-crop-deg3', M, 'fam_interior_crop', {'deg': 3}))
    # Arc.cropped / split / reversed (Angle-domain harness shared with C04)
    for sw in (False, True):
        fams.append(('arc-cropped-flags-sweep%d' % sw, 'vf.props.c04', 'fam_cropped_flags', {'sw': sw}))
        for via in ('split-first', 'split-second'):
            fams.append(('arc-%s-flags-sweep%d' % (via, sw), 'vf.props.c04', 'fam_cropped_flags', {'sw': sw, 'via': via}))
    for la, sw in ((False, True), (True, False)) if tier == 'quick' else ((False, False), (False, True), (True, False), (True, True)):
        fams.append(('arc-reversed-p37-%d%d' % (la, sw), 'vf.props.c04', 'fam_reversed_cropped', {'rot': 'p37', 'la': la, 'sw': sw}))
    for n in (2, 3):
        fams.append(('path-reversed-after-query-n%d' % n, M, 'fam_reversed_after_query', {'n': n}))
    for n in (1, 2, 3):
        fams.append(('path-cropped-n%d' % n, M, 'fam_path_cropped', {'n': n, 'wrap': False}))
        fams.append(('path-reversed-n%d' % n, M, 'fam_path_reversed', {'n': n}))
    fams.append(('path-cropped-wrap-n2', M, 'fam_path_cropped', {'n': 2, 'wrap': True}))
    if tier == 'thorough':
        fams.append(('path-cropped-wrap-n3', M, 'fam_path_cropped', {'n': 3, 'wrap': True}))
        fams.append(('path-cropped-n4', M, 'fam_path_cropped', {'n': 4, 'wrap': False}))
        fams.append(('path-cropped-wrap-n4', M, 'fam_path_cropped', {'n': 4, 'wrap': True}))
    return fams
