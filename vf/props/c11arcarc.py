"""C11/C12 -- Arc x Arc for two unrotated circular arcs (the only arc pair the library solves in closed form).

The real branch of Arc.intersect runs on two circles given by symbolic centres and radii; both point_to_t methods are recorders
(their own correctness: c11arc.py), Arc.point returns the candidate a recorded parameter belongs to.  Decided for the generic
branch (two proper crossings): both candidate points lie on both circles (z3-checked certificates over the sqrt atoms d, h), every
common point of the two circles is a candidate, and each reported pair is (parameter on self, parameter on other) of one candidate.
Tangent circles: the single candidate lies on both circles up to the 1e-6 window of the branch.  Disjoint / nested circles: [].
The branch for two arcs of the same circle is cut (outside).
"""
import z3

from ..symx import SR, SC, SB, explore, symc, symr, mval, mcval, Ctx, lift, zabs, tosc, Abort, ceq
from ..stubs import NPProxy, patched

class FT(float):
    """a recorded parameter: a float with an identity"""


REPLAY_AA = '''
import math
c0, r0, c1, r1 = %r
def circ(c, r, a0, a1, sweep):
    p = lambda a: c + r * complex(math.cos(math.radians(a)), math.sin(math.radians(a)))
    d = (a1 - a0) %% 360 if sweep else -((a0 - a1) %% 360)
    return Arc(p(a0), complex(r, r), 0, abs(d) > 180, sweep, p(a1))
for (a0, a1, s0) in ((10, 200, True), (200, 10, False), (-100, 95, True), (60, 300, True)):
    for (b0, b1, s1) in ((170, 20, True), (30, 220, True), (250, 80, False), (-30, 185, True)):
        A, B = circ(c0, r0, a0, a1, s0), circ(c1, r1, b0, b1, s1)
        try:
            r = A.intersect(B)
        except AssertionError as e:
            REPRODUCED('%%r.intersect(%%r) failed its own assertion' %% (A, B))
        for t1, t2 in r:
            if not (0 <= t1 <= 1 and 0 <= t2 <= 1) or abs(A.point(t1) - B.point(t2)) > 1e-3 * (1 + r0 + r1):
                REPRODUCED('%%r.intersect(%%r) = %%r: points %%r / %%r' %% (A, B, r, A.point(t1), B.point(t2)))
        # completeness by sampling A against the circle of B
        N = 3000; prev = None
        for i in range(N + 1):
            z = A.point(i / N); f = abs(z - c1) - r1
            if prev is not None and prev[0] * f < 0 and 0.01 < i / N < 0.99:
                lo, hi, flo = prev[1] / N, i / N, prev[0]
                for _ in range(60):                      # bisection: the crossing itself, not a sample near it
                    mid = (lo + hi) / 2; fm = abs(A.point(mid) - c1) - r1
                    if flo * fm <= 0: hi = mid
                    else: lo, flo = mid, fm
                ta = (lo + hi) / 2; z = A.point(ta)
                d1 = (z - c1) / r1; ang = math.degrees(math.atan2(d1.imag, d1.real))
                tbs = [(ang + 360 * j - B.theta) / B.delta for j in (-2, -1, 0, 1, 2)]
                if any(0.01 < tb < 0.99 for tb in tbs) and not any(abs(t1 - ta) < 5e-3 for t1, t2 in r):
                    REPRODUCED('%%r crosses %%r at parameter %%r but intersect() = %%r' %% (A, B, ta, r))
            if f != 0: prev = (f, i)
'''


def symx_eq_poly(a, b):
    """a and b are the same polynomial (decided by z3 on the identity a - b == 0)"""
    from ..symx import solve
    r, dt, m = solve([a - b != 0], 5000)
    return r == 'unsat'


def fam_arc_arc_circles(R, tvals=(0.5, 0.5, 0.5, 0.5), mode='candidates', sign=0):
    import svgpathtools.path as P
    from svgpathtools.path import Arc
    R.bound(arcs='two unrotated circular arcs: centres and radii symbolic; sweeps unconstrained (point_to_t is a recorder)',
            recorded_parameters='(self, other) for candidate 0, then candidate 1: %r' % (tvals,))
    R.stub('Arc.point_to_t -> recorder returning a fresh parameter in [0,1] or outside', 'Arc.point(t) -> the candidate point the parameter was recorded for',
           'Arc._parameterize -> free centre', 'complex() -> symbolic complex', 'same-circle branch -> cut')
    calls = []
    orig_param, orig_ptt, orig_point = Arc._parameterize, Arc.point_to_t, Arc.point

    def cplx(re=0, im=0):
        if isinstance(re, (SR, SC)) or isinstance(im, SR):
            return tosc(re) + tosc(im) * 1j
        return complex(re, im)

    def run():
        del calls[:]
        cx = Ctx.cur
        c0, c1 = symc('c0'), symc('c1')
        r0, r1 = symr('r0'), symr('r1')
        cx.assume(r0.e > 0, r1.e > 0)
        # the branch for two arcs of the same circle (centres within 1e-6) is outside this family
        cx.assume(((c1.real - c0.real) * (c1.real - c0.real) + (c1.imag - c0.imag) * (c1.imag - c0.imag)).e >= 1e-6)
        centres = {}

        def fake(self):
            self.center = centres[id(self)]
            self.theta = self.delta = None
        Arc._parameterize = fake
        try:
            A = Arc.__new__(Arc)
            B = Arc.__new__(Arc)
            centres[id(A)], centres[id(B)] = c0, c1
            for arc, r_, tag in ((A, r0, 'a'), (B, r1, 'b')):
                arc.start, arc.end = symc(tag + '0'), symc(tag + '1')
                arc.radius = SC(r_, r_)
                arc.rotation = 0
                arc.large_arc, arc.sweep = True, True
                arc.autoscale_radius = True
                arc.segment_length_hash = arc.segment_length = None
                arc.center = centres[id(arc)]
                arc.theta = arc.delta = None

            def ptt(self, p):
                who = 'A' if self is A else 'B'
                k = len([c for c in calls if c[0] == who])
                v = tvals[min(2 * k + (0 if who == 'A' else 1), len(tvals) - 1)]
                t = None if v is None else FT(v)
                calls.append((who, tosc(p), t))
                return t

            def point(self, t):
                who = 'A' if self is A else 'B'
                for c in calls:
                    if c[0] == who and c[2] is t:
                        return c[1]
                raise Abort()
            Arc.point_to_t, Arc.point = ptt, point
            Arc.__ne__ = lambda s_, o: s_ is not o
            try:
                with patched(P, complex=cplx, np=NPProxy()):
                    r = A.intersect(B)
            finally:
                del Arc.__ne__
            return c0, r0, c1, r1, r, list(calls)
        finally:
            Arc._parameterize, Arc.point_to_t, Arc.point = orig_param, orig_ptt, orig_point

    for ctx, (kind, val) in explore(run, maxpaths=400, logic=None):
        if kind == 'abort':
            continue
        R.path(ctx)
        if kind != 'ok':
            R.unexpected(ctx, 'unexpected %s %r' % (kind, val))
            continue
        c0, r0, c1, r1, r, cl = val
        Ctx.cur = ctx

        def cex(m):
            inp = (mcval(m, c0), abs(mval(m, r0)) or 1.0, mcval(m, c1), abs(mval(m, r1)) or 1.0)
            return {'cls': 'Arc x Arc (circles)', 'inputs': {'c0': str(inp[0]), 'r0': inp[1], 'c1': str(inp[2]), 'r1': inp[3]}, 'script': REPLAY_AA % (inp,)}
        robust = [zabs(c0.real.e) <= 5, zabs(c0.imag.e) <= 5, zabs(c1.real.e) <= 5, zabs(c1.imag.e) <= 5, r0.e >= 0.5, r0.e <= 5, r1.e >= 0.5, r1.e <= 5]
        cands = [c[1] for c in cl if c[0] == 'A']
        dd = (c1.real - c0.real) * (c1.real - c0.real) + (c1.imag - c0.imag) * (c1.imag - c0.imag)

        def on(p, c, rr):
            return (p.real - c.real) * (p.real - c.real) + (p.imag - c.imag) * (p.imag - c.imag), rr * rr
        if len(cands) == 2:
            for i, p in (enumerate(cands) if mode != 'complete' else ()):
                for nm, c_, rr in (('self', c0, r0), ('other', c1, r1)):
                    lhs, rhs = on(p, c_, rr)
                    gap = lhs.e - rhs.e
                    R.ob_eq('candidate%d-on-%s-circle' % (i, nm), ctx, lhs.e, rhs.e, cex=cex, robust=robust + [z3.Or(gap >= 0.01, gap <= -0.01)], timeout_ms=60000)
            # an arbitrary point of the plane in the orthonormal frame of the centre line:  w = c0 + alpha u/d + s n/d,  u = c1 - c0, n = i u
            d_atom = None
            for kk_, (rad_, q_) in ctx.sqrt_memo.items():
                if isinstance(kk_, int) and z3.is_const(q_) and not z3.is_rational_value(q_):
                    if z3.is_true(z3.simplify(z3.simplify(rad_) == z3.simplify(dd.e))) or symx_eq_poly(rad_, dd.e):
                        d_atom = SR(q_)
            if d_atom is not None and mode == 'complete':
                # completeness in four solver-checked steps.  Every point of the plane is  w = c0 + alpha u + s n  (u = c1 - c0, n = i u,
                # u != 0).  For w on both circles, with D = |u|^2:
                #   (A) 2 alpha D = r0^2 - r1^2 + D          (difference of the two circle equations)
                #   (B) s^2 D = r0^2 - alpha^2 D             (the first circle equation)
                #   (C) given (A) and k >= 0 with k^2 D = r0^2 - alpha^2 D:  c0 + alpha u + k n  and  c0 + alpha u - k n  are candidates
                #       (posed with a = alpha d, h = k d, d = |u| the code's own square root, and bridged back)
                #   (D) s^2 D = k^2 D, D > 0  =>  s = k or s = -k
                # hence w is one of the two candidates.
                al, ss, hh = symr('alpha'), symr('s'), symr('k')
                ux, uy = c1.real - c0.real, c1.imag - c0.imag
                w = SC(c0.real + al * ux - ss * uy, c0.imag + al * uy + ss * ux)
                l0, r0_ = on(w, c0, r0)
                l1, r1_ = on(w, c1, r1)
                E = [l0.e == r0_.e, l1.e == r1_.e]
                A_eq = (al * dd * 2).e == (r0 * r0 - r1 * r1 + dd).e
                R.ob_eq('complete.A: 2 alpha D = r0^2 - r1^2 + D', ctx, (al * dd * 2).e, (r0 * r0 - r1 * r1 + dd).e, extra=E, cex=cex, timeout_ms=60000)
                R.ob_eq('complete.B: s^2 D = r0^2 - alpha^2 D', ctx, (ss * ss * dd).e, (r0 * r0 - al * al * dd).e, extra=E, cex=cex, timeout_ms=60000)
                H = [hh.e >= 0, (hh * hh * dd).e == (r0 * r0 - al * al * dd).e]
                # (C) is posed in the normalisation the code uses (a = alpha d along u/d, h = k d along n/d), with three bridging identities
                ao, ho = symr('a_along'), symr('h_across')
                Ao = (ao * d_atom * 2).e == (r0 * r0 - r1 * r1 + dd).e
                Ho = [ho.e >= 0, (ho * ho).e == (r0 * r0 - ao * ao).e]
                for sg_, nm_ in (((1, '+'), (-1, '-')) if sign == 0 else ((sign, '+' if sign > 0 else '-'),)):
                    wc = SC(c0.real + (ao * ux - ho * sg_ * uy) / d_atom, c0.imag + (ao * uy + ho * sg_ * ux) / d_atom)
                    hit = z3.Or(*[ceq(wc, p_) for p_ in cands])
                    R.ob('complete.C: c0 + (a u %s h n)/d is a candidate' % nm_, ctx, hit, extra=[Ao] + Ho, cex=cex, timeout_ms=60000)
                R.ob_eq('complete.bridge: a = alpha d satisfies (A)', ctx, (al * d_atom * d_atom * 2).e, (r0 * r0 - r1 * r1 + dd).e, extra=[A_eq], cex=cex, timeout_ms=60000)
                R.ob_eq('complete.bridge: h = k d satisfies h^2 = r0^2 - a^2', ctx, (hh * d_atom * hh * d_atom).e, (r0 * r0 - al * d_atom * al * d_atom).e, extra=H, cex=cex, timeout_ms=60000)
                for nm_, lhs_, rhs_ in (('x', (al * d_atom * ux - hh * d_atom * uy) / d_atom, al * ux - hh * uy), ('y', (al * d_atom * uy + hh * d_atom * ux) / d_atom, al * uy + hh * ux)):
                    R.ob_eq('complete.bridge: same point (%s)' % nm_, ctx, lift(lhs_).e, lift(rhs_).e, cex=cex, timeout_ms=60000)
                R.ob('complete.D: s^2 D = k^2 D, D > 0 => s = +-k', ctx, z3.Or(ss.e == hh.e, ss.e == -hh.e), extra=[(ss * ss * dd).e == (hh * hh * dd).e, dd.e > 0], cex=cex)
            w = symc('w')
            l0, r0_ = on(w, c0, r0)
            l1, r1_ = on(w, c1, r1)
            claim = z3.Or(ceq(w, cands[0]), ceq(w, cands[1]))
            v_ = 'skipped' if (any(v != 0.5 for v in tvals) or mode == 'complete' or d_atom is not None) else R.ob('every-common-point-is-a-candidate', ctx, claim, extra=[l0.e == r0_.e, l1.e == r1_.e], cex=cex, timeout_ms=60000,
                      robust=robust + [l0.e == r0_.e, l1.e == r1_.e, z3.Not(claim)] + [z3.Or(zabs((w.real - p.real).e) >= 0.05, zabs((w.imag - p.imag).e) >= 0.05) for p in cands])
            if v_ == 'unknown' and not getattr(R, '_probed_aa', False):
                R._probed_aa = True      # undecided: probe the real branch on fixed circles (confirms a lost crossing, proves nothing)
                for inp_ in ((0j, 2.0, 3 + 0j, 2.0), (1 + 1j, 3.0, 2.5 - 1j, 1.5), (0j, 1.0, 0.5 + 1.2j, 1.25)):
                    if R.probe('every-common-point-is-a-candidate', {'cls': 'Arc x Arc (circles)', 'inputs': {'circles': str(inp_)}, 'script': REPLAY_AA % (inp_,)}):
                        break
        elif len(cands) == 1:
            p = cands[0]
            for nm, c_, rr in (('self', c0, r0), ('other', c1, r1)):
                lhs, rhs = on(p, c_, rr)
                # |p - c| within 1e-6 of r (the tangent branches are entered through np.isclose(..., atol=1e-6))
                R.ob('tangent-candidate-near-%s-circle' % nm, ctx, z3.And(lhs.e <= ((rr + 1e-5) * (rr + 1e-5)).e, z3.Or(rr.e <= 1e-5, lhs.e >= ((rr - 1e-5) * (rr - 1e-5)).e)), cex=cex,
                     robust=robust + [z3.Or(lhs.e >= ((rr + 0.01) * (rr + 0.01)).e, lhs.e <= ((rr - 0.01) * (rr - 0.01)).e)], timeout_ms=60000)
        else:
            # no candidate: the circles have no common point (or are further apart / nested by more than the 1e-6 windows)
            w = symc('w')
            l0, r0_ = on(w, c0, r0)
            l1, r1_ = on(w, c1, r1)
            R.ob('no-candidates-only-without-common-point', ctx, z3.BoolVal(False), extra=[l0.e == r0_.e, l1.e == r1_.e], cex=cex, robust=robust, timeout_ms=60000)
        # assembly: pairs are (t on self, t on other) of the same candidate, kept iff both in [0,1]
        want = []
        for ca in [c for c in cl if c[0] == 'A']:
            cb = [c for c in cl if c[0] == 'B' and c[1] is ca[1]]
            if cb:
                want.append((ca[2], cb[0][2]))
        okp = all(any(a is x and b is y for x, y in want) for a, b in r)
        R.ob('pairs-belong-to-one-candidate', ctx, z3.BoolVal(bool(okp)), cex=cex, robust=robust)
        inr = [a is not None and b is not None and 0 <= a <= 1 and 0 <= b <= 1 for a, b in want]
        rep = [any(a is x and b is y for x, y in r) for a, b in want]
        R.ob('pair-reported-iff-both-parameters-in-range', ctx, z3.BoolVal(inr == rep), cex=cex, robust=robust)
        if R.paths % 10 == 1:
            R.sample({'candidates': len(cands), 'pairs': len(r)})


def fam_arc_bezier_polynomial(R, deg, rot='p37', radii=(2.0, 1.0)):
    """Arc.intersect(Bezier) / rotated Arc.intersect(Line): the polynomial whose roots in [0,1] are taken as the curve parameters of the
    crossings is |u1(B(t))|^2 - 1, u1 the map of the arc's ellipse onto the unit circle: it vanishes exactly where the curve meets the
    full ellipse.  polyroots01 is a recorder; real/imag/poly1d arithmetic of numpy runs on symbolic coefficients."""
    import numpy as np
    import svgpathtools.path as P
    from svgpathtools.path import Arc
    from . import c04
    from .c03 import bern
    from .c11 import cls_of
    P.np = NPProxy()
    d_, c_, s_ = c04.ROTATIONS[rot]
    R.bound(degree=deg, rotation=rot, arc='centre symbolic, radii %r' % (radii,), curve='symbolic control points')
    R.stub('polyroots01 -> recorder of the polynomial', 'Arc._parameterize -> free centre; rot_matrix = the rational (cos, sin) of the family')
    cap = {}
    orig = Arc._parameterize

    def run():
        cx = Ctx.cur
        ctr = symc('ctr')
        rx, ry = lift(radii[0]), lift(radii[1])     # concrete: numpy divides a poly1d by a scalar only if numpy knows it as a scalar

        def fake(self):
            self.center = ctr
            self.theta = self.delta = None
        Arc._parameterize = fake
        cx.assume(z3.Not(ceq(symc('a0'), symc('a1'))))
        try:
            arc = Arc(symc('a0'), complex(*radii), 30.0 if rot != '0' else 0.0, True, True, symc('a1'))
            arc.rot_matrix = SC(SR(z3.RealVal(str(c_))), SR(z3.RealVal(str(s_))))
            arc.rotation = d_ if rot != '0' else 7.0        # a non-zero rotation keeps Line out of the closed-form branch
            ps = [symc('p%d' % i) for i in range(deg + 1)]
            cx.assume(z3.Not(ceq(ps[0], ps[-1])), z3.Not(ceq(symc('a0'), symc('a1'))))
            seg = cls_of(deg)(*ps)

            def rec(p):
                cap['p'] = list(np.asarray(p.coeffs if hasattr(p, 'coeffs') else p))
                return []
            with patched(P, polyroots01=rec):
                arc.intersect(seg)
            return arc, ctr, rx, ry, ps, cap.get('p')
        finally:
            Arc._parameterize = orig

    for ctx, (kind, val) in explore(run, maxpaths=60):
        R.path(ctx, nontrivial=True)
        if kind != 'ok':
            R.unexpected(ctx, 'unexpected %s %r' % (kind, val))
            continue
        arc, ctr, rx, ry, ps, co = val
        if co is None:
            R.ob('root-polynomial-handed-to-polyroots01', ctx, z3.BoolVal(False))
            continue
        t = symr('t')
        v = lift(0)
        for cf in co:
            v = v * t + (cf.real if isinstance(cf, SC) else cf)
        z = bern(ps, t) - ctr
        cc, ss = SR(z3.RealVal(str(c_))), SR(z3.RealVal(str(s_)))
        xr, yr = cc * z.real + ss * z.imag, -ss * z.real + cc * z.imag          # R(-phi)(B(t) - c)
        want = xr * xr / (rx * rx) + yr * yr / (ry * ry) - 1
        R.ob_eq('deg%d.root-polynomial=implicit-ellipse-equation-along-the-curve' % deg, ctx, lift(v).e, want.e, timeout_ms=90000,
                cex=lambda m: {'cls': 'Arc x Bezier root polynomial', 'inputs': {'rx': mval(m, rx), 'ry': mval(m, ry)}, 'script': REPLAY_PHASE_PROXY})
        R.sample({'degree': deg, 'rotation': rot, 'polynomial_degree': len(co) - 1})


REPLAY_PHASE_PROXY = '''
import math
curves = [Line(-3-2j, 5+4j), QuadraticBezier(-2-2j, 1+6j, 4-2j), CubicBezier(-3+0j, 0+4j, 2-4j, 5+1j)]
for rot in (30, -75, 110):
    for la in (0, 1):
        arc = Arc(0j, 2+1j, rot, la, 1, 3+1j)
        for cv in curves:
            r = arc.intersect(cv)
            for t1, t2 in r:
                if not (0 <= t1 <= 1 and 0 <= t2 <= 1) or abs(arc.point(t1) - cv.point(t2)) > 1e-3:
                    REPRODUCED('%r.intersect(%r) = %r: points %r / %r' % (arc, cv, r, arc.point(t1), cv.point(t2)))
            def f(z):
                w = (z - arc.center) / arc.rot_matrix
                return (w.real / arc.radius.real) ** 2 + (w.imag / arc.radius.imag) ** 2 - 1
            N = 2000; pts = [arc.point(i / N) for i in range(N + 1)]
            M = 2000; pv = f(cv.point(0))
            for i in range(1, M + 1):
                cur = f(cv.point(i / M))
                if pv * cur < 0:
                    z = cv.point((i - .5) / M)
                    k = min(range(N + 1), key=lambda k_: abs(z - pts[k_]))
                    if abs(z - pts[k]) < 5e-3 and 0.01 < k / N < 0.99 and 0.01 < (i - .5) / M < 0.99:
                        if not any(abs(a - k / N) < 5e-3 and abs(b - (i - .5) / M) < 5e-3 for a, b in r):
                            REPRODUCED('%r crosses %r near arc parameter %r but intersect() = %r' % (arc, cv, k / N, r))
                if cur != 0: pv = cur
'''
