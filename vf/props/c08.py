"""C08 -- bbox() contains the curve and is tight."""
import z3

from ..symx import (SR, SC, SB, explore, symc, symr, ceq, req, mval, mcval, Ctx, lift, zabs, Abort, tosc, NonFinite)
from ..stubs import NPProxy, patched, sym_min, sym_max
from .c03 import bern, REPLAY_ORACLE

META = {
    'explanation': (
        'bezier_real_minmax / bezier_bounding_box / Line.bbox / Path.bbox run on symbolic coordinates.  For each control path of the '
        'real code z3 (QF_NRA) is asked directly for a parameter t in [0,1] at which the coordinate polynomial leaves the returned '
        '[min,max] (containment), and whether min and max are values of the curve at parameters in [0,1] (tightness).  The closed-form '
        'cubic branch (discriminant, both roots, the open-interval filter) is executed as is with math.sqrt mapped to a sqrt atom; the '
        'degenerate-cubic, quadratic and linear cases go through polyroots with np.roots replaced by an exact symbolic root finder '
        'for degree <= 2 (contract: all roots).  Path.bbox: union of stub boxes; and equal to the box of a fresh Path after every single in-place edit '
        '(setitem/insert/del/slice/append/extend/pop/reverse/start=/end=) following a bbox() call.  Arc.bbox (vf/props/c08arc.py): the real Arc.bbox and '
        'Arc.point run with exact degree arithmetic (pi = the angle of 180 degrees), cos/sin as an uninterpreted function of the degree value; '
        'the oracle is the amplitude/phase form cx + R cos(a - beta) of each coordinate with monotonicity of cos on half periods instantiated '
        'on every angle that occurs (UF + linear real arithmetic).'),
    'outside': ['Arc.bbox: radii and rotation are concrete per family (rotations with rational cos/sin: 0, +-90, 180 and five Pythagorean angles; radii 2x1, 1x4, circle); theta, delta, centre symbolic', 'rounding', 'LAPACK accuracy behind np.roots'],
    'assumptions': ['np.roots contract (exact roots, degree <= 2 here)',
                    'Arc: A cos a + B sin a = R cos(a - atan2(B, A)); cos monotone on [180j, 180(j+1)]; atan of a concrete rational enclosed to 1e-11 degrees; '
                    'Arc state satisfies start = point(theta), end = point(theta + delta), -180 <= theta <= 180, 0 < |delta| < 360'],
}


def exact_roots(p):
    """np.roots contract for degree <= 2 with symbolic coefficients: all roots,
    exactly (complex ones as SC with non-zero imaginary part)."""
    import numpy as np
    co = [lift(c) if not isinstance(c, SC) else c.real for c in list(np.asarray(p.coeffs if hasattr(p, 'coeffs') else p))]
    while co and not (co[0] != 0):
        co = co[1:]
    if len(co) <= 1:
        return []
    if len(co) == 2:
        return [SC(-co[1] / co[0], 0)]
    if len(co) == 3:
        a, b, c = co
        disc = b * b - 4 * a * c
        if disc >= 0:
            q = disc.sqrt()
            return [SC((-b + q) / (2 * a), 0), SC((-b - q) / (2 * a), 0)]
        q = (-disc).sqrt()
        return [SC(-b / (2 * a), q / (2 * a)), SC(-b / (2 * a), -q / (2 * a))]
    raise NotImplementedError('exact_roots: degree %d' % (len(co) - 1))


def bern1(a, t):
    n = len(a) - 1
    from math import comb
    r = lift(0)
    for i, ai in enumerate(a):
        r = r + ai * comb(n, i) * ((1 - t) ** (n - i)) * (t ** i)
    return r


REPLAY_MM = REPLAY_ORACLE + '''
from svgpathtools.bezier import bezier_real_minmax, bezier_bounding_box
a = %r
deg = len(a) - 1
seg = bpoints2bezier([complex(x, 0.25 * x * x - x) for x in a]) if deg >= 1 else None
xmin, xmax = seg.bbox()[:2]
eps = 1e-9 * (1 + max(abs(x) for x in a))
from fractions import Fraction as F
from math import comb
def B(t):
    t = F(t); return float(sum(comb(deg, i) * (1 - t) ** (deg - i) * t ** i * F(x) for i, x in enumerate(a)))
ts = [F(i, 4000) for i in range(4001)] + [F(%r).limit_denominator(10**9)]
vals = [B(t) for t in ts if 0 <= t <= 1]
if min(vals) < xmin - eps or max(vals) > xmax + eps:
    REPRODUCED('bbox x-range %%r of %%r does not contain the curve: x ranges over [%%r, %%r]' %% ((xmin, xmax), seg, min(vals), max(vals)))
if deg == 3:
    mn, mx = bezier_real_minmax(a)
    if min(vals) < mn - eps or max(vals) > mx + eps or abs(mn - min(vals)) > 1e-5 * (1 + abs(mn)) or abs(mx - max(vals)) > 1e-5 * (1 + abs(mx)):
        REPRODUCED('bezier_real_minmax(%%r) = %%r but the polynomial ranges over [%%r, %%r]' %% (a, (mn, mx), min(vals), max(vals)))
if abs(xmin - min(vals)) > 1e-5 * (1 + abs(xmin)) or abs(xmax - max(vals)) > 1e-5 * (1 + abs(xmax)):
    REPRODUCED('bbox x-range %%r is not tight: curve x ranges over [%%r, %%r]' %% ((xmin, xmax), min(vals), max(vals)))
'''


def fam_minmax(R, deg, degenerate, shard=(0, 1)):
    """bezier_real_minmax (cubic) / bezier_bounding_box (quadratic, via a segment)"""
    import svgpathtools.bezier as B
    import svgpathtools.polytools as PT
    import svgpathtools.path as P
    R.bound(degree=deg, degenerate_cubic=degenerate)
    R.stub('bezier.sqrt (math.sqrt) -> sqrt atom', 'bezier.min/max -> If-terms (same value, no fork)', 'np.roots -> exact symbolic roots for degree <= 2')

    def msqrt(x):
        x = lift(x)
        if not (x >= 0):
            raise ValueError('math domain error')
        return x.sqrt()

    def run():
        a = [symr('a%d' % i) for i in range(deg + 1)]
        c = Ctx.cur
        if deg == 3:
            den = a[0] - 3 * a[1] + 3 * a[2] - a[3]
            c.assume(den.e == 0 if degenerate else den.e != 0)
        with patched(B, sqrt=msqrt, min=sym_min, max=sym_max), patched(PT, np=NPProxy(roots=exact_roots)):
            if deg == 3:
                mn, mx = B.bezier_real_minmax(a)
            else:
                seg = P.bpoints2bezier([SC(x, 0) for x in a])
                bb = seg.bbox()
                mn, mx = bb[0], bb[1]
        return a, lift(mn), lift(mx)

    idx = -1
    for ctx, (kind, val) in explore(run, maxpaths=3000):
        idx += 1
        if idx % shard[1] != shard[0]:
            continue      # another shard of this family proves this path
        R.path(ctx)
        if kind != 'ok':
            R.error('unexpected %s %r' % (kind, val))
            continue
        a, mn, mx = val
        t = symr('t')
        Bt = bern1(a, t)
        rng = [t.e >= 0, t.e <= 1]

        def cex(m):
            av = [mval(m, x) for x in a]
            return {'cls': 'bbox degree %d%s' % (deg, ' (degenerate cubic)' if degenerate else ''), 'inputs': {'coords': av, 't': mval(m, t)},
                    'script': REPLAY_MM % (av, mval(m, t))}
        robust = [zabs(x.e) <= 20 for x in a] + [z3.Or(Bt.e > mx.e + 0.05, Bt.e < mn.e - 0.05)]
        v_ = R.ob('deg%d.contains' % deg, ctx, z3.And(mn.e <= Bt.e, Bt.e <= mx.e), extra=rng, cex=cex, robust=robust, timeout_ms=90000)
        if v_ == 'unknown' and deg == 3 and not getattr(R, '_probed_minmax', False):
            # undecided: probe the real function on fixed S-shaped / overshooting coordinate polynomials (confirms a wrong box, proves nothing)
            R._probed_minmax = True
            for av_, tv_ in (([0.0, 40.0, -30.0, 10.0], 0.2), ([0.0, 6.0, -5.0, 1.0], 0.8), ([0.0, 400.0, -300.0, 100.0], 0.75), ([3.0, -2.0, 7.0, 1.0], 0.5),
                             ([1.0, 5.0, 5.0, 1.0], 0.5), ([0.0, 3.0, -2.0, 1.0], 0.3)):
                if R.probe('deg%d.contains' % deg, {'cls': 'bbox degree %d%s' % (deg, ' (degenerate cubic)' if degenerate else ''),
                                                    'inputs': {'coords': av_, 't': tv_}, 'script': REPLAY_MM % (av_, tv_)}):
                    break
        # tightness: both bounds are attained on [0,1]
        s_, u_ = symr('s_attain_min'), symr('s_attain_max')
        # (exists s in [0,1]: B(s) = mn) -- shown constructively: mn/mx are values at 0, 1 or a critical point the code computed
        R.ob('deg%d.min<=ends<=max' % deg, ctx, z3.And(mn.e <= a[0].e, mn.e <= a[-1].e, mx.e >= a[0].e, mx.e >= a[-1].e), cex=cex)
        # attained: not (for all s in [0,1]: B(s) > mn)  <=> exists s; ask the solver for a witness-free proof by contradiction
        #   claim: it is impossible that mn < B(s) for ALL s -- encoded through the three candidate kinds
        cand = [lift(0), lift(1)]
        for suffix, hyp, claim in tight_obligations(a, mn, mx):
            R.ob('deg%d.tight.%s' % (deg, suffix), ctx, claim, extra=hyp, cex=cex, timeout_ms=60000)
        if R.paths % 10 == 1:
            R.sample({'degree': deg, 'degenerate': degenerate, 'decisions': ''.join('TF'[not d[0]] for d in ctx.decisions[:ctx.pos])})


def tight_obligations(a, mn, mx):
    """mn and mx are attained on [0,1]: each equals B(0), B(1) or B(r) at a real
    root r in [0,1] of B'.  The (at most two) roots of the quadratic B' are
    introduced by Vieta's relations as hypotheses (they exist whenever the
    discriminant is >= 0), so no quantifier is needed.
    returns list of (suffix, extra_hypotheses, claim)"""
    from .c03 import power_coeffs
    c = [x.real for x in power_coeffs([SC(x, 0) for x in a])]
    while len(c) < 4:
        c.append(lift(0))
    A, Bq, Cq = 3 * c[3], 2 * c[2], c[1]          # B'(s) = A s^2 + Bq s + Cq
    disc = Bq * Bq - 4 * A * Cq
    r1, r2, r0 = symr('tight_r1'), symr('tight_r2'), symr('tight_r0')

    def at(bound, roots):
        alts = [bound.e == a[0].e, bound.e == a[-1].e]
        for r in roots:
            alts.append(z3.And(r.e >= 0, r.e <= 1, bern1(a, r).e == bound.e))
        return z3.Or(*alts)
    obs = []
    # quadratic derivative with real roots
    vieta = [A.e != 0, disc.e >= 0, (A * (r1 + r2)).e == (-Bq).e, (A * r1 * r2).e == Cq.e]
    obs.append(('two-critical-points.min', vieta, at(mn, [r1, r2])))
    obs.append(('two-critical-points.max', vieta, at(mx, [r1, r2])))
    obs.append(('no-critical-point', [A.e != 0, disc.e < 0], z3.And(at(mn, []), at(mx, []))))
    # linear derivative
    obs.append(('one-critical-point', [A.e == 0, Bq.e != 0, (Bq * r0).e == (-Cq).e], z3.And(at(mn, [r0]), at(mx, [r0]))))
    obs.append(('constant-derivative', [A.e == 0, Bq.e == 0], z3.And(at(mn, []), at(mx, []))))
    return obs


class BSeg:
    def __init__(self, k):
        self.k = k
        self.box = tuple(symr('%s%d' % (n, k)) for n in ('xmin', 'xmax', 'ymin', 'ymax'))
        self.start = symc('a%d' % k)
        self.end = symc('b%d' % k)

    def bbox(self):
        return self.box


def fam_path(R, n):
    from svgpathtools.path import Path
    R.bound(n=n)
    R.stub('segment.bbox -> symbolic box with xmin<=xmax, ymin<=ymax')

    def run():
        segs = [BSeg(k) for k in range(n)]
        for s in segs:
            Ctx.cur.assume(s.box[0].e <= s.box[1].e, s.box[2].e <= s.box[3].e)
        return segs, Path(*segs).bbox()

    for ctx, (kind, val) in explore(run, maxpaths=5000):
        R.path(ctx)
        if kind != 'ok':
            R.error('unexpected %s %r' % (kind, val))
            continue
        segs, bb = val
        bb = [lift(x) for x in bb]

        def cex(m):
            boxes = [[mval(m, x) for x in s.box] for s in segs]
            return {'cls': 'Path.bbox union', 'inputs': boxes, 'script': '''
boxes = %r
p = Path(*[Line(complex(b[0], b[2]), complex(b[1], b[3])) for b in boxes])
want = (min(b[0] for b in boxes), max(b[1] for b in boxes), min(b[2] for b in boxes), max(b[3] for b in boxes))
if tuple(p.bbox()) != want: REPRODUCED('Path.bbox() = %%r, union of segment boxes = %%r' %% (p.bbox(), want))
''' % boxes}
        claim = z3.And(
            *[bb[0].e <= s.box[0].e for s in segs], z3.Or(*[bb[0].e == s.box[0].e for s in segs]),
            *[bb[1].e >= s.box[1].e for s in segs], z3.Or(*[bb[1].e == s.box[1].e for s in segs]),
            *[bb[2].e <= s.box[2].e for s in segs], z3.Or(*[bb[2].e == s.box[2].e for s in segs]),
            *[bb[3].e >= s.box[3].e for s in segs], z3.Or(*[bb[3].e == s.box[3].e for s in segs]))
        R.ob('n%d.union' % n, ctx, claim, cex=cex)
        if R.paths % 20 == 1:
            R.sample({'n': n})


def fam_line(R):
    from svgpathtools.path import Line

    def run():
        a, b = symc('a'), symc('b')
        return a, b, Line(a, b).bbox()

    for ctx, (kind, val) in explore(run, maxpaths=100):
        R.path(ctx)
        if kind != 'ok':
            R.error('unexpected %s %r' % (kind, val))
            continue
        a, b, bb = val
        bb = [lift(x) for x in bb]
        t = symr('t')
        p = bern([a, b], t)
        R.ob('line.contains', ctx, z3.And(bb[0].e <= p.real.e, p.real.e <= bb[1].e, bb[2].e <= p.imag.e, p.imag.e <= bb[3].e),
             extra=[t.e >= 0, t.e <= 1])
        R.ob('line.tight', ctx, z3.And(z3.Or(bb[0].e == a.real.e, bb[0].e == b.real.e), z3.Or(bb[1].e == a.real.e, bb[1].e == b.real.e),
                                       z3.Or(bb[2].e == a.imag.e, bb[2].e == b.imag.e), z3.Or(bb[3].e == a.imag.e, bb[3].e == b.imag.e)))
        R.sample({'line': 'symbolic'})


def families(tier):
    M = 'vf.props.c08'
    K = 5
    fams = [('cubic-closed-form-%d' % k, M, 'fam_minmax', {'deg': 3, 'degenerate': False, 'shard': (k, K)}) for k in range(K)]
    fams += [
            ('cubic-degenerate', M, 'fam_minmax', {'deg': 3, 'degenerate': True}),
            ('quadratic', M, 'fam_minmax', {'deg': 2, 'degenerate': False}),
            ('line', M, 'fam_line', {})]
    fams += [('path-n%d' % n, M, 'fam_path', {'n': n}) for n in (1, 2, 3)]
    # Path.bbox after in-place edits of the path (a box computed before the edit must not survive it): shared with C16
    from .c16 import ops_alphabet
    fams.append(('after-mutation', 'vf.props.c16', 'fam_path_history', {'k': 1, 'first_ops': ops_alphabet(), 'prequery': True}))
    combos = [('rot0', '2x1'), ('rot53', '2x1'), ('rot113', '1x4'), ('rot-37', 'circle'), ('rot90', '1x4')]
    if tier == 'thorough':
        from .c08arc import ROTS, RADII
        combos = [(r, q) for r in ROTS for q in RADII]
    for r, q in combos:
        for sg in (1, -1):
            fams.append(('arc-%s-%s-%s' % (r, q, 'ccw' if sg > 0 else 'cw'), 'vf.props.c08arc', 'fam_arc_bbox', {'rot': r, 'radii': q, 'sign': sg}))
    return fams
