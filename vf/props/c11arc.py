"""C11/C12 -- Arc.point_to_t (rotation 0): the parameter of a point of the ellipse.

The real Arc.point_to_t runs on an arc whose state is constructed directly
(theta in [-180,180], 0 < |delta| < 360 symbolic, centre symbolic, radii
concrete, rotation 0) and on a point of its ellipse given by its eccentric
angle alpha = 360 k + r, -180 < r <= 180 (alpha symbolic in [-540, 540]).
cos/sin of alpha stay uninterpreted (cosd); acos(cosd(alpha)) and
asin(cosd(alpha - 90)) are the piecewise-linear folds |r| and r / 180 - r /
-180 - r in degrees -- the only trigonometric facts used.  The two np.isclose
tests on complex points (near start / near end) are symbolic flags; np.isclose
on the candidate parameters is numpy's defining inequality, multiplied through
by |delta| so that every query stays linear.

Claims: a returned t lies in [0,1] and theta + t delta is alpha up to a
multiple of 360 degrees (to 1e-2 degrees: np.isclose lets two candidate angles 3.6e-3 degrees apart be averaged); if alpha + 360 j lies strictly inside
the sweep for some j (2e-3 degrees from both ends), a parameter is returned.
"""
import z3

from ..symx import SR, SC, SB, explore, symc, symr, mval, Ctx, lift, OPTS, _normalise, zabs, tosc
from ..stubs import NPProxy, patched, sym_min, sym_max

CF = z3.Function('cosd', z3.RealSort(), z3.RealSort())

REPLAY_PT = '''
import math
rx, ry, cx, cy, theta, delta, alpha = %r
def pt(a):
    a = math.radians(a); return complex(cx + rx * math.cos(a), cy + ry * math.sin(a))
arc = Arc(pt(theta), complex(rx, ry), 0, abs(delta) > 180, delta > 0, pt(theta + delta))
if abs(arc.delta - delta) > 1e-6 or abs(arc.radius - complex(rx, ry)) > 1e-9:
    print('constructor did not reproduce the arc', arc.theta, arc.delta); raise SystemExit(0)
for al in [alpha] + [theta + delta * i / 97 for i in range(1, 97)] + [theta - 7.0, theta + delta + 9.0]:
    p = pt(al)
    t = arc.point_to_t(p)
    ts = [(al + 360 * j - arc.theta) / arc.delta for j in (-2, -1, 0, 1, 2)]
    inside = [u for u in ts if 1e-4 < u < 1 - 1e-4]
    if t is None:
        if inside: REPRODUCED('%%r.point_to_t(%%r) = None but the point is point(%%r)' %% (arc, p, inside[0]))
    else:
        if not (0 <= t <= 1) or abs(arc.point(t) - p) > 1e-4 * (1 + rx + ry):
            REPRODUCED('%%r.point_to_t(%%r) = %%r but point(t) = %%r' %% (arc, p, t, arc.point(t)))
'''


def fam_arc_point_to_t(R, radii, sign):
    import svgpathtools.path as P
    OPTS['sympy_normalise'] = True
    OPTS['cmp_clear_den'] = True
    rx, ry = radii
    R.bound(radii=radii, rotation=0, theta='[-180,180] symbolic', delta='(0,360)' if sign > 0 else '(-360,0)', alpha='[-540,540] symbolic', centre='symbolic')
    R.stub('cos/sin of the eccentric angle -> uninterpreted cosd', 'acos(cosd(alpha)) / asin(cosd(alpha-90)) -> the piecewise-linear folds in degrees',
           'np.isclose(point, start/end, atol=1e-6) -> symbolic flags', 'np.isclose on parameters -> its defining inequality multiplied by |delta|',
           'sqrt(|v|^2) -> a value between the radii (the point is on the ellipse)', 'min/max -> If-terms')

    class Fold:
        """degree value of acos/asin of cosd(alpha) resp. cosd(alpha - 90), unit radians"""
        def __init__(self, d):
            self.d = d

        def degrees(self):
            return SR(self.d)

    def run():
        cx = Ctx.cur
        th, de = symr('theta'), symr('delta')
        kk = z3.Int('k')
        r_ = symr('r')
        al = SR(360 * z3.ToReal(kk) + r_.e)
        ctr = SC(symr('cx'), symr('cy'))
        cx.assume(th.e >= -180, th.e <= 180, r_.e > -180, r_.e <= 180, kk >= -1, kk <= 1)
        cx.assume(de.e > 0 if sign > 0 else de.e < 0, de.e < 360, de.e > -360)
        ca, sa = CF(al.e), CF(al.e - 90)
        cx.assume(ca >= -1, ca <= 1, sa >= -1, sa <= 1)
        near0, near1 = z3.Bool('near_start'), z3.Bool('near_end')
        arc = object.__new__(P.Arc)
        arc.radius = complex(rx, ry)
        arc.rotation = 0.0
        arc.large_arc, arc.sweep = None, sign > 0
        arc.center = ctr
        arc.theta, arc.delta = th, de
        arc.start, arc.end = 'START', 'END'
        point = SC(ctr.real + rx * SR(ca), ctr.imag + ry * SR(sa))
        absde = de if sign > 0 else -de

        def isclose(a, b, rtol=1e-5, atol=1e-8):
            if b == 'START':
                return SB(near0)
            if b == 'END':
                return SB(near1)
            a_, b_ = lift(a), lift(b)
            if isinstance(a_, SR) and isinstance(b_, SR):
                num = _normalise(z3.simplify((a_.e - b_.e) * de.e))
                numb = _normalise(z3.simplify(b_.e * de.e))
                if not (z3.is_app_of(num, z3.Z3_OP_DIV) or z3.is_app_of(numb, z3.Z3_OP_DIV)):
                    return SB(zabs(num) <= atol * absde.e + rtol * zabs(numb))
            return NPProxy.isclose(a, b, rtol=rtol, atol=atol)

        def sqrt_(x):
            d = SR(cx.fresh('dist'))
            cx.assume(d.e >= min(rx, ry), d.e <= max(rx, ry))
            return d

        def acos_(x):
            e = z3.simplify(_normalise(lift(x).e))
            if z3.eq(e, z3.simplify(ca)):
                return Fold(z3.If(r_.e >= 0, r_.e, -r_.e))
            if z3.is_rational_value(e) and e.numerator_as_long() in (1, -1) and e.denominator_as_long() == 1:
                return Fold(z3.RealVal(0 if e.numerator_as_long() == 1 else 180))
            raise TypeError('acos of an unexpected term %s' % e)

        def asin_(x):
            e = z3.simplify(_normalise(lift(x).e))
            if z3.eq(e, z3.simplify(sa)):
                return Fold(z3.If(r_.e > 90, 180 - r_.e, z3.If(r_.e < -90, -180 - r_.e, r_.e)))
            if z3.is_rational_value(e) and e.numerator_as_long() in (1, -1) and e.denominator_as_long() == 1:
                return Fold(z3.RealVal(90 if e.numerator_as_long() == 1 else -90))
            raise TypeError('asin of an unexpected term %s' % e)

        def degrees_(x):
            return x.degrees()
        with patched(P, np=NPProxy(isclose=isclose), sqrt=sqrt_, acos=acos_, asin=asin_, degrees=degrees_, min=sym_min, max=sym_max):
            t = arc.point_to_t(point)
        return th, de, al, r_, kk, ctr, near0, near1, t

    for ctx, (kind, val) in explore(run, maxpaths=3000, logic=None):
        R.path(ctx)
        if kind != 'ok':
            R.unexpected(ctx, 'unexpected %s %r' % (kind, val))
            continue
        th, de, al, r_, kk, ctr, near0, near1, t = val

        def cex(m):
            inp = (rx, ry, mval(m, ctr.real), mval(m, ctr.imag), mval(m, th), mval(m, de), mval(m, al))
            return {'cls': 'Arc.point_to_t', 'inputs': dict(zip(('rx', 'ry', 'cx', 'cy', 'theta', 'delta', 'alpha'), inp)), 'script': REPLAY_PT % (inp,)}
        robust = [zabs(ctr.real.e) <= 5, zabs(ctr.imag.e) <= 5, zabs(de.e) >= 30, zabs(de.e) <= 350]
        absde = de.e if sign > 0 else -de.e
        js = (-2, -1, 0, 1, 2)
        if t is None:
            # no parameter: alpha (mod 360) is not strictly inside the sweep -- unless the point was taken for an end point
            inside = z3.Or(*[z3.And((al.e + 360 * j - th.e) * (1 if sign > 0 else -1) >= 0.002,
                                    (th.e + de.e - al.e - 360 * j) * (1 if sign > 0 else -1) >= 0.002) for j in js])
            far = [z3.And((al.e + 360 * j - th.e) * (1 if sign > 0 else -1) >= 5, (th.e + de.e - al.e - 360 * j) * (1 if sign > 0 else -1) >= 5) for j in js]
            R.ob('None-only-off-the-arc', ctx, z3.Not(inside), cex=cex, robust=robust + [z3.Or(*far)], timeout_ms=30000)
        elif isinstance(t, float):
            R.ob('end-point-shortcut', ctx, (near0 if t == 0.0 else near1) if t in (0.0, 1.0) else z3.BoolVal(False), cex=cex)
        else:
            t = lift(t)
            ang = _normalise(z3.simplify(t.e * de.e))          # t * delta, cleared
            hit = z3.Or(*[zabs(th.e + ang - al.e - 360 * j) <= 0.01 for j in js])
            off = [zabs(th.e + ang - al.e - 360 * j) >= 1 for j in js]
            R.ob('returned-parameter-is-the-point', ctx, z3.And(t.e >= 0, t.e <= 1, hit), cex=cex, robust=robust + off, timeout_ms=30000)
        if R.paths % 50 == 1:
            R.sample({'radii': radii, 'sign': sign, 'decisions': ''.join('TF'[not d[0]] for d in ctx.decisions[:ctx.pos])})


REPLAY_LPT = '''
a, b, u = %r
ln = Line(a, b)
for uu in (u, 0.0, 1.0, 0.25, 0.999, -0.2, 1.3):
    p = a + uu * (b - a)
    t = ln.point_to_t(p)
    if 1e-5 < uu < 1 - 1e-5 or uu in (0.0, 1.0):
        if t is None or abs(ln.point(t) - p) > 1e-5 * (1 + abs(a) + abs(b)): REPRODUCED('%%r.point_to_t(%%r) = %%r, the point is point(%%r)' %% (ln, p, t, uu))
    elif abs(p - a) > 1e-3 and abs(p - b) > 1e-3 and t is not None:
        REPRODUCED('%%r.point_to_t(%%r) = %%r for a point of the carrier line outside the segment (parameter %%r)' %% (ln, p, t, uu))
q = a + 0.5 * (b - a) + 0.01 * 1j * (b - a)
if ln.point_to_t(q) is not None: REPRODUCED('%%r.point_to_t(%%r) is not None for a point off the line' %% (ln, q))
'''


def fam_line_point_to_t(R):
    """Line.point_to_t on a point a + u (b - a) + w i (b - a) (u, w symbolic: w = 0 is on the carrier line)."""
    import svgpathtools.path as P
    from svgpathtools.path import Line
    R.bound(line='symbolic end points', point='a + u (b - a) + w i (b - a), u and w symbolic')
    R.stub('np.isclose(point, start/end, atol=1e-6) -> symbolic flags', 'np.isclose(t.imag, 0) -> |t.imag| <= 1e-8')

    def run():
        cx = Ctx.cur
        a, b = symc('a'), symc('b')
        u, w = symr('u'), symr('w')
        cx.assume(z3.Not(z3.And(a.real.e == b.real.e, a.imag.e == b.imag.e)))
        d = b - a
        p = a + d * u + SC(-d.imag, d.real) * w
        near0, near1 = z3.Bool('near_start'), z3.Bool('near_end')
        ln = Line(a, b)

        def isclose(x, y, rtol=1e-5, atol=1e-8):
            if y is ln.start:
                return SB(near0)
            if y is ln.end:
                return SB(near1)
            return NPProxy.isclose(x, y, rtol=rtol, atol=atol)
        with patched(P, np=NPProxy(isclose=isclose)):
            t = ln.point_to_t(p)
        return a, b, u, w, near0, near1, t

    for ctx, (kind, val) in explore(run, maxpaths=200):
        R.path(ctx)
        if kind != 'ok':
            R.unexpected(ctx, 'unexpected %s %r' % (kind, val))
            continue
        a, b, u, w, near0, near1, t = val

        def cex(m):
            from ..symx import mcval
            inp = (mcval(m, a), mcval(m, b), mval(m, u))
            return {'cls': 'Line.point_to_t', 'inputs': {'line': str(inp[:2]), 'u': inp[2], 'w': mval(m, w)}, 'script': REPLAY_LPT % (inp,)}
        rb = [zabs(v.e) <= 9 for z_ in (a, b) for v in (z_.real, z_.imag)] + [zabs((b - a).real.e) + zabs((b - a).imag.e) >= 1]
        if t is None:
            R.ob('None-only-off-the-segment', ctx, z3.Not(z3.And(w.e == 0, u.e >= 0, u.e <= 1)), cex=cex, robust=rb + [w.e == 0, u.e >= 0.1, u.e <= 0.9])
        elif isinstance(t, float):
            R.ob('end-point-shortcut', ctx, near0 if t == 0.0 else near1, cex=cex)
        else:
            t = lift(t)
            R.ob('returned-parameter-is-the-point', ctx, z3.And(t.e >= 0, t.e <= 1, t.e == u.e, zabs(w.e) <= 1e-8), cex=cex,
                 robust=rb + [z3.Or(zabs(t.e - u.e) >= 0.01, zabs(w.e) >= 0.01)], timeout_ms=60000)
        R.sample({'result': 'None' if t is None else str(t)[:40]})


REPLAY_PHASE = '''
import math
# arcs of both sweep directions against curves that cross them: every crossing of the arc must be reported (phase2t maps the phase of
# the crossing on the unit circle to the arc parameter)
curves = [Line(-3-2j, 5+4j), QuadraticBezier(-2-2j, 1+6j, 4-2j), CubicBezier(-3+0j, 0+4j, 2-4j, 5+1j), Line(-4+0.3j, 4-0.5j), QuadraticBezier(-3+2j, 0-5j, 3+2.5j)]
theta_m, delta_m, t_m = %r
def arc_of(theta, delta, rot):
    def pt(a):
        a = math.radians(a); z = complex(2 * math.cos(a), 1 * math.sin(a))
        return z * complex(math.cos(math.radians(rot)), math.sin(math.radians(rot))) + (0.4 + 0.2j)
    return Arc(pt(theta), 2+1j, rot, abs(delta) > 180, delta > 0, pt(theta + delta))
arcs = [Arc(0j, 2+1j, rot, la, sw, 3+1j) for sw in (0, 1) for la in (0, 1) for rot in (30, -75, 0)]
if 5 <= abs(delta_m) <= 355:
    arcs = [arc_of(theta_m, delta_m, 30), arc_of(theta_m, delta_m, -75)] + arcs
    # a line and a quadratic that cross the model's arc transversally at the model's parameter
    for arc in arcs[:2]:
        if abs(arc.delta - delta_m) > 1e-6: continue
        p = arc.point(t_m); d = arc.derivative(t_m); n = 1j * d / abs(d)
        qa, qb = p - 1.1 * n - 0.4 * d / abs(d), p + 0.8 * n - 0.3 * d / abs(d)
        for cv in (Line(p - 1.3 * n, p + 0.9 * n), QuadraticBezier(qa, 2 * p - (qa + qb) / 2, qb)):       # the quadratic passes through p at 1/2
            for x, y, sw_ in ((arc, cv, False), (cv, arc, True)):
                r = x.intersect(y)
                ts = [(b if sw_ else a) for a, b in r]
                if 0.02 < t_m < 0.98 and not any(abs(t - t_m) < 2e-2 for t in ts):
                    REPRODUCED('%%r (theta %%r, delta %%r) is crossed by %%r at its parameter %%r but intersect() = %%r' %% (arc, arc.theta, arc.delta, cv, t_m, r))
for arc in arcs:
    if True:
        if True:
            rot = arc.rotation
            for cv in curves:
                if rot == 0 and isinstance(cv, Line): continue
                r = arc.intersect(cv)
                for t1, t2 in r:
                    if not (0 <= t1 <= 1 and 0 <= t2 <= 1) or abs(arc.point(t1) - cv.point(t2)) > 1e-3:
                        REPRODUCED('%%r.intersect(%%r) = %%r: points %%r / %%r' %% (arc, cv, r, arc.point(t1), cv.point(t2)))
                def f(z):
                    w = (z - arc.center) / arc.rot_matrix
                    return (w.real / arc.radius.real) ** 2 + (w.imag / arc.radius.imag) ** 2 - 1
                N = 2000; pts = [arc.point(i / N) for i in range(N + 1)]
                M = 2000; pv = f(cv.point(0))
                for i in range(1, M + 1):
                    cur = f(cv.point(i / M))
                    if pv * cur < 0:
                        z = cv.point((i - .5) / M)
                        k = min(range(N + 1), key=lambda k_: abs(z - pts[k_]))
                        if abs(z - pts[k]) < 5e-3 and 0.01 < k / N < 0.99 and 0.01 < (i - .5) / M < 0.99:
                            if not any(abs(a - k / N) < 5e-3 and abs(b - (i - .5) / M) < 5e-3 for a, b in r):
                                REPRODUCED('%%r (delta %%r) crosses %%r near arc parameter %%r but intersect() = %%r' %% (arc, arc.delta, cv, k / N, r))
                    if cur != 0: pv = cur
'''


def fam_phase2t(R, sign):
    """Arc.phase2t(psi): psi is the phase (principal value, radians) of the eccentric angle alpha = theta + t* delta of a point of the
    arc; the parameter returned must be t*.  Degree arithmetic as in the other arc families (pi = the angle of 180 degrees)."""
    import svgpathtools.path as P
    OPTS['sympy_normalise'] = True
    OPTS['cmp_clear_den'] = True
    R.bound(theta='[-180,180] symbolic', delta='(0,360)' if sign > 0 else '(-360,0)', t_star='[0,1] symbolic')
    R.stub('psi % (2*pi) -> the representative in [0, 360) degrees', 'degrees -> identity on degree values', 'theta // 360 -> floor')

    class DegVal:
        def __init__(s, d):
            s.d = d

        def degrees(s):
            return SR(s.d)

    class Psi:
        """an angle given by its principal value a in (-180, 180] degrees, as radians"""
        def __init__(s, a):
            s.a = a

        def __mod__(s, o):
            if abs(float(o) - 2 * 3.141592653589793) < 1e-9:
                return DegVal(z3.If(s.a < 0, s.a + 360, s.a))
            raise TypeError('unexpected modulus %r' % (o,))

    def run():
        cx = Ctx.cur
        th, de, ts = symr('theta'), symr('delta'), symr('tstar')
        jj = z3.Int('j')
        cx.assume(th.e >= -180, th.e <= 180, ts.e >= 0, ts.e <= 1, jj >= -2, jj <= 2)
        cx.assume(de.e > 0 if sign > 0 else de.e < 0, de.e < 360, de.e > -360)
        a = symr('a')
        cx.assume(a.e > -180, a.e <= 180, a.e + 360 * z3.ToReal(jj) == th.e + ts.e * de.e)
        arc = object.__new__(P.Arc)
        arc.theta, arc.delta = th, de
        def int_(x):
            if isinstance(x, SR):         # int() truncates towards zero
                return SR(z3.If(x.e >= 0, z3.ToReal(z3.ToInt(x.e)), -z3.ToReal(z3.ToInt(-x.e))))
            return int(x)
        with patched(P, degrees=lambda x: x.degrees(), int=int_):
            t = arc.phase2t(Psi(a.e))
        return th, de, ts, a, t

    for ctx, (kind, val) in explore(run, maxpaths=200, logic=None):
        R.path(ctx)
        if kind != 'ok':
            R.unexpected(ctx, 'unexpected %s %r' % (kind, val))
            continue
        th, de, ts, a, t = val
        t = lift(t)
        tde = _normalise(z3.simplify(t.e * de.e))
        # theta + t delta = theta + t* delta, except that the two ends of a full turn may be exchanged (outside: |delta| < 360)
        R.ob('phase2t-returns-the-parameter', ctx, tde == ts.e * de.e,
             cex=lambda m: {'cls': 'Arc.phase2t', 'inputs': {'theta': mval(m, th), 'delta': mval(m, de), 't*': mval(m, ts)}, 'script': REPLAY_PHASE % ((mval(m, th), mval(m, de), mval(m, ts)),)},
             robust=[ts.e >= 0.1, ts.e <= 0.9, zabs(de.e) >= 30, zabs(de.e) <= 330, zabs(tde - ts.e * de.e) >= 1])
        R.sample({'sign': sign})
