"""C15 -- unit_tangent, normal, curvature."""
import math
import z3

from ..symx import (SR, SC, SB, explore, symc, symr, ceq, req, mval, mcval, Ctx, lift, zabs, Abort, sq, tosc)
from ..stubs import NPProxy, patched
from .c03 import deriv_oracle, bern, REPLAY_ORACLE

META = {
    'explanation': (
        "Line/Quadratic/Cubic unit_tangent, normal and curvature run on symbolic control points and t.  Regular points: z3 shows "
        "unit_tangent is the positive unit multiple of B' (oracle derivative built independently), modulus 1, normal = -i*unit_tangent, "
        "curvature^2*|B'|^6 = (x'y''-y'x'')^2 with curvature >= 0, curvature of a Line = 0.  Singular end points (coincident first/last "
        "control points, the normal case for S/T after a non-curve): the real ZeroDivisionError route through rational_limit (poly1d on "
        "symbolic coefficients) and the complex square root (principal-branch stub) is executed and the result is compared with the "
        "direction of travel (P_k-P_0)/|P_k-P_0| WITH its sign, at t=0 and t=1, for every coincidence pattern."),
    'outside': ['Arc tangent/curvature (follow from the derivative identities of the C04 arc families)', 'interior cusps (one-sided limits differ)',
                'numpy-scalar inputs (nan + warning instead of ZeroDivisionError)', 'rounding',
                'behaviour under translated/rotated/scaled/reversed follows from C10/C09 (control points) + the regular-point identity'],
    'assumptions': ['numpy complex sqrt = principal root (Re w >= 0; sign of Im w follows Im z)'],
}

NAMES = {1: 'Line', 2: 'QuadraticBezier', 3: 'CubicBezier'}


def cls_of(deg):
    import svgpathtools.path as P
    return {1: P.Line, 2: P.QuadraticBezier, 3: P.CubicBezier}[deg]


REPLAY_REG = REPLAY_ORACLE + '''
ps = %r; t = %r
seg = bpoints2bezier(ps)
d1 = derivF(ps, t, 1); d2 = derivF(ps, t, 2)
if abs(d1) > 1e-6:
    ut = seg.unit_tangent(t); nm = seg.normal(t); k = seg.curvature(t)
    want_k = abs(d1.real * d2.imag - d1.imag * d2.real) / abs(d1) ** 3
    if abs(ut - d1 / abs(d1)) > 1e-7: REPRODUCED('unit_tangent(%%r) = %%r, derivative direction %%r' %% (t, ut, d1 / abs(d1)))
    if abs(nm + 1j * d1 / abs(d1)) > 1e-7: REPRODUCED('normal(%%r) = %%r, expected %%r' %% (t, nm, -1j * d1 / abs(d1)))
    if abs(k - want_k) > 1e-6 * (1 + want_k): REPRODUCED('curvature(%%r) = %%r, formula gives %%r' %% (t, k, want_k))
'''


def fam_regular(R, deg):
    import svgpathtools.path as P
    P.np = NPProxy()
    R.bound(degree=deg)

    def run():
        ps = [symc('p%d' % i) for i in range(deg + 1)]
        t = symr('t')
        seg = cls_of(deg)(*ps)
        c = Ctx.cur
        d1 = deriv_oracle(ps, t, 1)
        c.assume(z3.Not(ceq(d1, 0)))
        if deg == 1:
            c.assume(z3.Not(ceq(ps[0], ps[1])))
        try:
            ut = seg.unit_tangent(t)
        except ZeroDivisionError:
            raise Abort()       # excluded by the assumption; unreachable
        nm = seg.normal(t)
        rec = []

        def rec_sqrt(x):
            r = lift(x).sqrt()
            rec.append((lift(x), r))
            return r
        with patched(P, sqrt=rec_sqrt):
            k = seg.curvature(t)
        return ps, t, ut, nm, (k, rec)

    for ctx, (kind, val) in explore(run, maxpaths=300):
        if kind == 'abort':
            continue
        R.path(ctx)
        if kind != 'ok':
            R.unexpected(ctx, 'unexpected %s %r' % (kind, val))
            continue
        ps, t, ut, nm, (k, rec) = val
        d1 = deriv_oracle(ps, t, 1)
        d2 = deriv_oracle(ps, t, 2)
        n2 = d1.real * d1.real + d1.imag * d1.imag

        def cex(m):
            pts = [mcval(m, p) for p in ps]
            return {'cls': '%s tangent/normal/curvature at a regular point' % NAMES[deg], 'inputs': {'ps': str(pts), 't': mval(m, t)},
                    'script': REPLAY_REG % (pts, mval(m, t))}
        R.ob('%s.modulus-1' % NAMES[deg], ctx, (ut.real * ut.real + ut.imag * ut.imag).e == 1, cex=cex, timeout_ms=60000)
        # ut is a positive multiple of d1:  ut * |d1|^2 * ... ; avoid the sqrt atom: ut x d1 = 0 and ut . d1 > 0
        R.ob('%s.direction' % NAMES[deg], ctx, z3.And((ut.real * d1.imag - ut.imag * d1.real).e == 0,
                                                     (ut.real * d1.real + ut.imag * d1.imag).e > 0), cex=cex, timeout_ms=60000)
        R.ob('%s.normal' % NAMES[deg], ctx, ceq(nm, SC(ut.imag, -ut.real)), cex=cex)
        kk = lift(k)
        crossv = d1.real * d2.imag - d1.imag * d2.real
        # kappa >= 0 and kappa^2 * |d1|^6 = cross^2
        if len(rec) == 1:
            rad, q = rec[0]
            # the speed |B'| the code divides by is the right one, and kappa * |B'|^3 = |x'y''-y'x''|
            R.ob('%s.curvature.speed' % NAMES[deg], ctx, req(rad, n2), cex=cex, timeout_ms=60000)
            R.ob('%s.curvature.value' % NAMES[deg], ctx, (kk * q * q * q).e == zabs(crossv.e), cex=cex, timeout_ms=60000)
        else:
            R.ob('%s.curvature' % NAMES[deg], ctx, z3.And(kk.e >= 0, (kk * kk * n2 * n2 * n2).e == (crossv * crossv).e), cex=cex, timeout_ms=90000)
        R.sample({'class': NAMES[deg], 'decisions': ''.join('TF'[not d[0]] for d in ctx.decisions[:ctx.pos])})


REPLAY_SING = '''
ps = %r; t = %r; want_dir = %r
seg = bpoints2bezier(ps)
try:
    ut = seg.unit_tangent(t)
except Exception as e:
    REPRODUCED('unit_tangent(%%r) of %%r raised %%r; the one-sided limit is %%r' %% (t, seg, e, want_dir / abs(want_dir)))
want = want_dir / abs(want_dir)
if abs(ut - want) > 1e-6:
    REPRODUCED('unit_tangent(%%r) of %%r = %%r but the curve travels in direction %%r' %% (t, seg, ut, want))
nm = seg.normal(t)
if abs(nm + 1j * want) > 1e-6: REPRODUCED('normal(%%r) = %%r, expected %%r' %% (t, nm, -1j * want))
'''

# (degree, at, coincidence pattern) -> (control point builder, direction of travel)
SINGULAR = {
    'cubic.t0.P0=P1': (3, 0, lambda a, b, c: [a, a, b, c], lambda a, b, c: b - a),
    'cubic.t0.P0=P1=P2': (3, 0, lambda a, b, c: [a, a, a, b], lambda a, b, c: b - a),
    'cubic.t1.P2=P3': (3, 1, lambda a, b, c: [a, b, c, c], lambda a, b, c: c - b),
    'cubic.t1.P1=P2=P3': (3, 1, lambda a, b, c: [a, b, b, b], lambda a, b, c: b - a),
    'quadratic.t0.P0=P1': (2, 0, lambda a, b, c: [a, a, b], lambda a, b, c: b - a),
    'quadratic.t1.P1=P2': (2, 1, lambda a, b, c: [a, b, b], lambda a, b, c: b - a),
}


def fam_singular(R, case, origin=False):
    import svgpathtools.path as P
    import svgpathtools.polytools as PT
    P.np = NPProxy()
    PT.np = NPProxy()
    deg, at, build, direction = SINGULAR[case]
    R.bound(case=case, singular_point_anchored_at_origin=origin)
    R.stub('csqrt (numpy complex sqrt) -> principal root: w*w=z, Re w>=0, sign(Im w)=sign(Im z)')

    def run():
        a = SC(0, 0) if origin == 'a' else symc('a')
        b = symc('b')
        c_ = SC(0, 0) if origin == 'c' else symc('c')
        ps = build(a, b, c_)
        e = direction(a, b, c_)
        Ctx.cur.assume(z3.Not(ceq(e, 0)))
        seg = cls_of(deg)(*ps)
        try:
            r = ('ok', seg.unit_tangent(at), seg.normal(at))
        except Exception as ex:      # whatever the code raises here is a result
            r = (type(ex).__name__, ex, None)
        return (a, b, c_), ps, e, r

    for ctx, (kind, val) in explore(run, maxpaths=300, logic=None):
        R.path(ctx)
        if kind != 'ok':
            R.unexpected(ctx, '%s: unexpected %s %r' % (case, kind, val))
            continue
        (a, b, c_), ps, e, (rk, ut, nm) = val

        def cex(m):
            pts = [mcval(m, p) for p in ps]
            ev = mcval(m, e)
            half = 'left half-plane heading' if ev.real < 0 or (ev.real == 0 and ev.imag < 0) else 'right half-plane heading'
            return {'cls': 'unit_tangent at a singular end point (%s)' % half, 'inputs': {'ps': str(pts), 't': at, 'direction': str(ev)},
                    'script': REPLAY_SING % (pts, at, ev)}
        robust = []
        for v in [x for x, nm_ in ((a, 'a'), (b, 'b'), (c_, 'c')) if nm_ != origin]:
            robust += [z3.IsInt(v.real.e), z3.IsInt(v.imag.e), zabs(v.real.e) <= 6, zabs(v.imag.e) <= 6]
        if rk != 'ok':
            R.ob('%s.no-exception' % case, ctx, z3.BoolVal(False), cex=cex, robust=robust)
            continue
        # ut = e/|e|  <=>  ut x e = 0, ut . e > 0, |ut| = 1
        R.ob('%s.direction-with-sign' % case, ctx,
             z3.And((ut.real * e.imag - ut.imag * e.real).e == 0, (ut.real * e.real + ut.imag * e.imag).e > 0,
                    (ut.real * ut.real + ut.imag * ut.imag).e == 1), cex=cex, robust=robust, timeout_ms=60000)
        R.ob('%s.normal' % case, ctx, ceq(nm, SC(ut.imag, -ut.real)), cex=cex, robust=robust)
        R.sample({'case': case, 'decisions': ''.join('TF'[not d[0]] for d in ctx.decisions[:ctx.pos])})


def fam_line(R):
    import svgpathtools.path as P
    P.np = NPProxy()

    def run():
        a, b = symc('a'), symc('b')
        Ctx.cur.assume(z3.Not(ceq(a, b)))
        ln = P.Line(a, b)
        return a, b, ln.unit_tangent(0.3), ln.normal(0.3), ln.curvature(0.3)

    for ctx, (kind, val) in explore(run, maxpaths=20):
        R.path(ctx, nontrivial=True)
        if kind != 'ok':
            R.unexpected(ctx, 'unexpected %s %r' % (kind, val))
            continue
        a, b, ut, nm, k = val
        e = b - a
        R.ob('line.tangent', ctx, z3.And((ut.real * e.imag - ut.imag * e.real).e == 0, (ut.real * e.real + ut.imag * e.imag).e > 0,
                                         (ut.real * ut.real + ut.imag * ut.imag).e == 1))
        R.ob('line.normal', ctx, ceq(nm, SC(ut.imag, -ut.real)))
        R.ob('line.curvature=0', ctx, z3.BoolVal(k == 0))
        R.sample({'line': 'symbolic end points'})


REPLAY_ARC_CURV = """
import math
arcs = [Arc(0j, %r, %r, 0, 1, 1.5+1j), Arc(0j, %r, %r, 1, 0, 1.5+1j), Arc(1+1j, 3+1j, 30.0, 1, 1, 2+2j), Arc(1+1j, 1+2j, -70.0, 0, 1, 2+2j)]
for arc in arcs:
    for t in (%r, 0.0, 0.3, 0.5, 1.0):
        if not 0 <= t <= 1: continue
        d1, d2 = arc.derivative(t, 1), arc.derivative(t, 2)
        want = abs(d1.real * d2.imag - d1.imag * d2.real) / abs(d1) ** 3
        got = arc.curvature(t)
        ut = arc.unit_tangent(t)
        if abs(got - want) > 1e-7 * (1 + want):
            REPRODUCED('%%r.curvature(%%r) = %%r but the cross-product formula on derivative(t,1), derivative(t,2) gives %%r' %% (arc, t, got, want))
        if abs(ut - d1 / abs(d1)) > 1e-9 or abs(arc.normal(t) - (-1j) * d1 / abs(d1)) > 1e-9:
            REPRODUCED('%%r: unit_tangent(%%r) = %%r, normal = %%r, derivative direction %%r' %% (arc, t, ut, arc.normal(t), d1 / abs(d1)))
"""


def fam_arc_curvature(R, rot, radii):
    """Arc.unit_tangent / normal / curvature on an arc given by free theta, delta (unit pairs), centre; concrete radii and a
    rotation with rational cos/sin.  Oracle: the ellipse's closed forms in the eccentric angle a = theta + t delta:
    z' = k e^{i phi}(-rx sin a + i ry cos a),  kappa = rx ry / (rx^2 sin^2 a + ry^2 cos^2 a)^{3/2}."""
    import svgpathtools.path as P
    from . import c04
    from ..ang import Ang
    c04.install(P)
    deg, c, s = c04.ROTATIONS[rot]
    rx, ry = radii
    R.bound(rotation=rot, radii=radii, theta_delta='free (unit pairs)', t='symbolic')
    R.stub('Arc._parameterize -> free theta/delta/centre (as in C04)', 'np.seterr -> no-op')
    orig = P.Arc._parameterize

    def fake(self):
        cx = Ctx.cur
        th, dl = symr('theta'), symr('delta')
        c1, s1, c2, s2 = cx.fresh('ct'), cx.fresh('st'), cx.fresh('cd'), cx.fresh('sd')
        cx.assume(c1 * c1 + s1 * s1 == 1, c2 * c2 + s2 * s2 == 1, dl.e != 0)
        self.theta = Ang(th.e, c1, s1, 'deg')
        self.delta = Ang(dl.e, c2, s2, 'deg')
        self.center = symc('ctr')

    def run():
        P.Arc._parameterize = fake
        try:
            arc = P.Arc(SC(0, 0), complex(rx, ry), c04.RotDeg(deg, c, s), True, True, SC(1, 1))
            t = symr('t')
            ut = arc.unit_tangent(t)
            nr = arc.normal(t)
            ku = arc.curvature(t)
            return arc, t, ut, nr, ku
        finally:
            P.Arc._parameterize = orig

    for ctx, (kind, val) in explore(run, maxpaths=60):
        R.path(ctx, nontrivial=True)
        if kind != 'ok':
            R.unexpected(ctx, 'unexpected %s %r' % (kind, val))
            continue
        arc, t, ut, nr, ku = val
        Ctx.cur = ctx
        a_ = arc.theta + t * arc.delta
        ca, sa = SR(a_.c), SR(a_.s)
        k = SR(arc.delta.d * z3.RealVal(repr(math.pi)) / 180)
        cc, ss = SR(z3.RealVal(str(c))), SR(z3.RealVal(str(s)))
        ex, ey = -rx * sa, ry * ca                      # derivative in the ellipse frame, divided by k
        dx, dy = k * (cc * ex - ss * ey), k * (ss * ex + cc * ey)
        D = rx * rx * sa * sa + ry * ry * ca * ca         # |z'|^2 / k^2
        n = symr('speed')                                  # |z'| = |k| sqrt(D)
        hyp = [n.e > 0, (n * n).e == (k * k * D).e]

        def cex(m):
            return {'cls': 'Arc tangent/normal/curvature', 'inputs': {'rotation': deg, 'radii': radii, 't': mval(m, t)},
                    'script': REPLAY_ARC_CURV % (complex(rx, ry), deg, complex(ry, rx), deg, mval(m, t))}
        ut, nr = tosc(ut), tosc(nr)
        # ut * |z'| = z' with |z'| = n: as  (ut.re)^2 * k^2 D = dx^2, same sign (no new sqrt atom needed)
        R.ob_eq('unit_tangent.re^2', ctx, (ut.real * ut.real * k * k * D).e, (dx * dx).e, cex=cex, timeout_ms=60000)
        R.ob_eq('unit_tangent.im^2', ctx, (ut.imag * ut.imag * k * k * D).e, (dy * dy).e, cex=cex, timeout_ms=60000)
        R.ob_eq('unit_tangent.direction', ctx, (ut.real * dy).e, (ut.imag * dx).e, cex=cex, timeout_ms=60000)
        R.ob('unit_tangent.sense', ctx, (ut.real * dx + ut.imag * dy).e >= 0, cex=cex, timeout_ms=60000)
        R.ob('normal=-i*unit_tangent', ctx, z3.And(nr.real.e == ut.imag.e, nr.imag.e == (-ut.real).e), cex=cex)
        ku = lift(ku)
        R.ob('curvature>=0', ctx, ku.e >= 0, cex=cex, timeout_ms=60000)
        R.ob_eq('curvature=rx*ry/D^(3/2)', ctx, (ku * ku * D * D * D).e, z3.RealVal(str(rx * rx * ry * ry)), cex=cex, timeout_ms=90000)
        R.sample({'rotation': rot, 'radii': radii})


def families(tier):
    M = 'vf.props.c15'
    fams = [('regular-deg%d' % d, M, 'fam_regular', {'deg': d}) for d in (2, 3)]
    fams.append(('line', M, 'fam_line', {}))
    # Arc: unit_tangent = derivative/|derivative| and curvature use derivative(t,1), derivative(t,2): the derivative identities
    for rot in ('0', 'p37', '90'):
        fams.append(('arc-derivative-%s' % rot, 'vf.props.c04', 'fam_derivative', {'rot': rot}))
    combos = [('0', (2.0, 1.0)), ('p37', (2.0, 1.0)), ('90', (1.0, 3.0)), ('m67', (2.5, 2.5))]
    if tier == 'thorough':
        combos += [('p127', (1.0, 3.0)), ('180', (2.0, 1.0)), ('p37', (1.0, 3.0)), ('-90', (2.0, 1.0))]
    for rot, rad in combos:
        fams.append(('arc-curvature-%s-%gx%g' % (rot, rad[0], rad[1]), M, 'fam_arc_curvature', {'rot': rot, 'radii': rad}))
    for case in SINGULAR:
        heavy = case in ('cubic.t0.P0=P1', 'cubic.t1.P2=P3')
        if heavy:
            fams.append(('singular-%s-at-origin' % case, M, 'fam_singular', {'case': case, 'origin': 'a' if '.t0.' in case else 'c'}))
        if not heavy or tier == 'thorough':
            fams.append(('singular-%s' % case, M, 'fam_singular', {'case': case}))
    return fams
