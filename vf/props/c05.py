"""C05 -- path parameter T, segment parameter t, arc-length fractions."""
import itertools
import time

import z3

from ..symx import (SR, SC, SB, explore, symc, symr, ceq, req, mval, mcval, Ctx, lift, prove, check_sat, zbool)
from ..stubs import NPProxy
from .. import fpx

META = {
    'explanation': (
        'Real Path._calc_lengths / T2t / t2T / point / length(T0,T1) / iscontinuous / isclosed / continuous_subpaths are executed '
        'on paths of n stub segments whose length() is a free non-negative real l_i and whose point(t) is an uninterpreted '
        'function f_k(t): z3 decides range, bracketing by cumulative fractions, t2T(T2t(T)) = T, point(T) = f_k(t), end points, '
        'absence of exceptions (reals), and the predicates against their definitions for every coincidence pattern.  '
        'Totality under rounding: the same real code is executed on IEEE binary64 symbolic values (z3 QF_FP): is there a double '
        'T in (0,1) for which T2t / point fall through their segment search?'),
    'outside': ['point() of real segments (C03/C04)', 'n larger than the bound', 'FP queries are bounded to l_i in [1e-3,1e3] and may time out (reported inconclusive)'],
    'assumptions': ['segment length() >= 0, first segment length > 0 (as in the property)'],
}


class StubSeg:
    """segment whose numeric kernels are free symbols"""

    def __init__(self, k, dom='R'):
        self.k = k
        if dom == 'R':
            self.l = symr('l%d' % k)
            self.start = symc('a%d' % k)
            self.end = symc('b%d' % k)
            self.fx = z3.Function('fx%d' % k, z3.RealSort(), z3.RealSort())
            self.fy = z3.Function('fy%d' % k, z3.RealSort(), z3.RealSort())
            self.L = z3.Function('L%d' % k, z3.RealSort(), z3.RealSort(), z3.RealSort())
        else:
            self.l = fpx.symf('l%d' % k)
            self.start = complex(k, 0)
            self.end = complex(k + 1, 0)
        self.dom = dom
        self.calls = []

    def length(self, t0=0, t1=1, error=None, min_depth=None):
        if self.dom == 'F':
            return self.l
        if isinstance(t0, int) and isinstance(t1, int) and (t0, t1) == (0, 1):
            return self.l
        a, b = lift(t0), lift(t1)
        return SR(self.L(a.e, b.e))

    def point(self, t):
        if self.dom == 'F':
            return ('pt', self.k, t)
        t = lift(t)
        return SC(SR(self.fx(t.e)), SR(self.fy(t.e)))

    def __repr__(self):
        return 'seg%d' % self.k


def mkpath(n, dom='R'):
    from svgpathtools.path import Path
    segs = [StubSeg(k, dom) for k in range(n)]
    c = Ctx.cur
    if dom == 'R':
        c.assume(segs[0].l.e > 0, *[s.l.e >= 0 for s in segs[1:]])
        for s in segs:
            c.assume(s.L(0, 1) == s.l.e)
    return Path(*segs), segs


REPLAY_TT = '''
ls = %r
T = %r
segs = []
x = 0.0
for i, l in enumerate(ls):
    segs.append(Line(complex(x, 3*i), complex(x + l, 3*i)))     # disjoint horizontal lines of the given lengths
    x += l + 7
p = Path(*segs)
try:
    k, t = p.T2t(T)
    pt = p.point(T)
    back = p.t2T(k, t)
except Exception as e:
    REPRODUCED('lengths %%r, T=%%r: %%r' %% (ls, T, e))
L = sum(ls)
cum = [sum(ls[:i]) / L for i in range(len(ls) + 1)]
eps = 1e-9
if not (-eps <= t <= 1 + eps): REPRODUCED('t=%%r outside [0,1] (lengths %%r, T=%%r)' %% (t, ls, T))
if not (cum[k] - eps <= T <= cum[k+1] + eps): REPRODUCED('T=%%r not in the interval %%r of segment %%d' %% (T, (cum[k], cum[k+1]), k))
if abs(back - T) > eps: REPRODUCED('t2T(T2t(T)) = %%r != T = %%r' %% (back, T))
if abs(pt - segs[k].point(t)) > 1e-7 * (1 + abs(pt)): REPRODUCED('point(T)=%%r but segment %%d at t=%%r is %%r' %% (pt, k, t, segs[k].point(t)))
if abs(p.point(0) - segs[0].start) > eps or abs(p.point(1) - segs[-1].end) > eps: REPRODUCED('point(0)/point(1) are not start/end')
'''


def fam_Tt(R, n):
    import svgpathtools.path as P
    R.bound(n=n, T='[0,1]', lengths='l0>0, li>=0')
    R.stub('segment.length -> free real l_i', 'segment.point -> uninterpreted f_k(t)')

    def run():
        p, segs = mkpath(n)
        T = symr('T')
        Ctx.cur.assume(T.e >= 0, T.e <= 1)
        out = {}
        try:
            out['T2t'] = p.T2t(T)
            out['point'] = p.point(T)
            k, t = out['T2t']
            out['t2T'] = p.t2T(k, t)
            out['p0'] = p.point(0)
            out['p1'] = p.point(1)
            out['p0.0'] = p.point(0.0)
            out['p1.0'] = p.point(1.0)
            out['T2t0'] = p.T2t(0)
            out['T2t1'] = p.T2t(1)
        except Exception as e:
            out['exc'] = e
        return p, segs, T, out

    for ctx, (kind, val) in explore(run, maxpaths=5000):
        R.path(ctx)
        if kind != 'ok':
            R.error('unexpected %s %r' % (kind, val))
            continue
        p, segs, T, out = val

        def cex(m):
            ls = [mval(m, s.l) for s in segs]
            return {'cls': cls[0], 'inputs': {'lengths': ls, 'T': mval(m, T)}, 'script': REPLAY_TT % (ls, mval(m, T))}
        cls = ['T/t coherence']
        if 'exc' in out:
            cls[0] = 'exception for T in [0,1] (%s)' % type(out['exc']).__name__
            R.ob('n%d.no-exception' % n, ctx, z3.BoolVal(False), cex=cex)
            continue
        k, t = out['T2t']
        t = lift(t)
        Ltot = sum((s.l for s in segs[1:]), segs[0].l)
        cum_lo = sum((s.l for s in segs[:k]), lift(0))
        cum_hi = cum_lo + segs[k].l
        R.ob('n%d.t-in-range' % n, ctx, z3.And(t.e >= 0, t.e <= 1), cex=cex)
        R.ob('n%d.T-in-segment-interval' % n, ctx, z3.And(cum_lo.e <= T.e * Ltot.e, T.e * Ltot.e <= cum_hi.e), cex=cex)
        R.ob('n%d.t2T(T2t(T))=T' % n, ctx, req(out['t2T'], T), cex=cex)
        R.ob('n%d.point(T)=seg_k.point(t)' % n, ctx, ceq(out['point'], segs[k].point(t)), cex=cex)
        R.ob('n%d.point(0)' % n, ctx, z3.And(ceq(out['p0'], segs[0].point(0)), ceq(out['p0.0'], segs[0].point(0))), cex=cex)
        R.ob('n%d.point(1)' % n, ctx, z3.And(ceq(out['p1'], segs[-1].point(1)), ceq(out['p1.0'], segs[-1].point(1))), cex=cex)
        R.ob('n%d.T2t(0),T2t(1)' % n, ctx, z3.BoolVal(tuple(out['T2t0']) == (0, 0) and tuple(out['T2t1']) == (n - 1, 1)), cex=cex)
        R.sample({'n': n, 'segment_chosen': k, 'decisions': ''.join('TF'[not d[0]] for d in ctx.decisions[:ctx.pos])})


def fam_length_T0T1(R, n):
    """Path.length(T0,T1) is assembled from the right pieces."""
    R.bound(n=n)
    R.stub('segment.length(t0,t1) -> uninterpreted L_k(t0,t1) with L_k(0,1)=l_k')

    def run():
        p, segs = mkpath(n)
        T0, T1 = symr('T0'), symr('T1')
        Ctx.cur.assume(T0.e >= 0, T0.e < T1.e, T1.e <= 1)
        full = p.length()
        part = p.length(T0, T1)
        k0, t0 = p.T2t(T0)
        k1, t1 = p.T2t(T1)
        return p, segs, full, part, (k0, lift(t0)), (k1, lift(t1))

    for ctx, (kind, val) in explore(run, maxpaths=20000):
        R.path(ctx)
        if kind != 'ok':
            R.error('unexpected %s %r' % (kind, val))
            continue
        p, segs, full, part, (k0, t0), (k1, t1) = val
        tot = sum((s.l for s in segs[1:]), segs[0].l)

        def cex0(m):
            ls = [mval(m, s.l) for s in segs]
            loops = [bool(z3.is_true(m.eval(ceq(s.start, s.end), model_completion=True))) for s in segs]
            return {'cls': 'Path.length() is not the sum of the segment lengths', 'inputs': {'lengths': ls, 'start==end': loops},
                    'script': REPLAY_SUM % (ls, loops)}
        R.ob('n%d.length()=sum' % n, ctx, req(full, tot), cex=cex0, robust=[segs[i].l.e >= 1 for i in range(n)] + [segs[i].l.e <= 9 for i in range(n)])
        if n == 1:
            want = segs[0].length(t0=symr('T0'), t1=symr('T1'))
        elif k0 == k1:
            want = segs[k0].length(t0=t0, t1=t1)
        else:
            want = segs[k0].length(t0=t0, t1=1) + sum((segs[j].l for j in range(k0 + 1, k1)), lift(0)) + segs[k1].length(t0=0, t1=t1)

        def cex(m):
            ls = [mval(m, s.l) for s in segs]
            return {'cls': 'Path.length(T0,T1) assembled from wrong pieces', 'inputs': {'lengths': ls, 'T0': mval(m, symr('T0')), 'T1': mval(m, symr('T1'))},
                    'script': REPLAY_LEN % (ls, mval(m, symr('T0')), mval(m, symr('T1')))}
        robust = [segs[i].l.e >= 1 for i in range(n)] + [segs[i].l.e <= 9 for i in range(n)]
        R.ob('n%d.length(T0,T1)' % n, ctx, req(part, want), cex=cex, robust=robust)
        R.sample({'n': n, 'k0': k0, 'k1': k1})


REPLAY_SUM = '''
ls = %r; loops = %r
# segments of (about) the given lengths; where the model has start == end the segment is a closed Bezier loop
segs = []; x = 0.0
for i, (l, lp) in enumerate(zip(ls, loops)):
    if lp:
        s0 = CubicBezier(complex(x, 3*i), complex(x + 4, 3*i + 4), complex(x + 4, 3*i - 4), complex(x, 3*i))
        k = max(l, 0.5) / s0.length()
        segs.append(CubicBezier(s0.start, s0.start + k * (s0.control1 - s0.start), s0.start + k * (s0.control2 - s0.start), s0.start))
    else:
        segs.append(Line(complex(x, 3*i), complex(x + max(l, 0.5), 3*i)))
    x += 11
for variant in (segs, segs + [QuadraticBezier(complex(x, 0), complex(x + 2, 5), complex(x, 0))]):
    p = Path(*variant)
    want = sum(s.length() for s in variant)
    got = p.length()
    if abs(got - want) > 1e-7 * (1 + want): REPRODUCED('Path.length() = %%r but its segments have lengths %%r (sum %%r): %%r' %% (got, [s.length() for s in variant], want, p))
    a, b = p.length(0, 0.4), p.length(0.4, 1)
    if abs(a + b - want) > 1e-6 * (1 + want): REPRODUCED('Path.length(0,.4) + length(.4,1) = %%r, sum of segment lengths %%r: %%r' %% (a + b, want, p))
'''


REPLAY_LEN = '''
ls = %r; T0 = %r; T1 = %r
segs = []; x = 0.0
for i, l in enumerate(ls):
    segs.append(Line(complex(x, 3*i), complex(x + l, 3*i))); x += l + 7
p = Path(*segs)
got = p.length(T0, T1)
want = (T1 - T0) * sum(ls)
if abs(got - want) > 1e-7 * (1 + want): REPRODUCED('Path.length(%%r,%%r)=%%r for line lengths %%r, expected %%r' %% (T0, T1, got, ls, want))
'''


def fam_predicates(R, n):
    from svgpathtools.path import Path, concatpaths
    R.bound(n=n)

    class EP:
        def __init__(s, k):
            s.k = k
            s.start = symc('a%d' % k)
            s.end = symc('b%d' % k)

        def __repr__(s):
            return 'seg%d' % s.k

    def run():
        segs = [EP(k) for k in range(n)]
        p = Path(*segs)
        cont = p.iscontinuous()
        subs = p.continuous_subpaths()
        try:
            closed = p.isclosed()
        except AssertionError:
            closed = 'assert'
        st, en = p.start, p.end
        return segs, cont, subs, closed, st, en

    for ctx, (kind, val) in explore(run, maxpaths=5000):
        R.path(ctx)
        if kind != 'ok':
            R.error('unexpected %s %r' % (kind, val))
            continue
        segs, cont, subs, closed, st, en = val
        joined = [ceq(segs[i].end, segs[i + 1].start) for i in range(n - 1)]
        allj = z3.And(*joined) if joined else z3.BoolVal(True)

        def cex(m):
            pts = [(mcval(m, s.start), mcval(m, s.end)) for s in segs]
            return {'cls': 'continuity predicates', 'inputs': {'segments': str(pts)}, 'script': REPLAY_PRED % pts}
        ints = []
        for s in segs:
            for z in (s.start, s.end):
                for e in (z.real.e, z.imag.e):
                    ints += [z3.IsInt(e), e >= -3, e <= 3]
        R.ob('n%d.iscontinuous' % n, ctx, zbool(cont) == allj, cex=cex, robust=ints)
        if isinstance(closed, str):
            R.ob('n%d.isclosed-asserts-only-if-discontinuous' % n, ctx, z3.Not(allj), cex=cex, robust=ints)
        else:
            R.ob('n%d.isclosed' % n, ctx, zbool(closed) == ceq(segs[0].start, segs[-1].end), cex=cex, robust=ints)
        R.ob('n%d.start/end' % n, ctx, z3.And(ceq(st, segs[0].start), ceq(en, segs[-1].end)), cex=cex, robust=ints)
        # continuous_subpaths: concatenation = original (object identity, in order)
        flat = [s for sp in subs for s in sp]
        ok_concat = len(flat) == n and all(a is b for a, b in zip(flat, segs))
        R.ob('n%d.subpaths.concat' % n, ctx, z3.BoolVal(ok_concat and all(len(sp) > 0 for sp in subs)), cex=cex, robust=ints)
        if ok_concat:
            inner, between = [], []
            idx = 0
            for sp in subs:
                for j in range(len(sp) - 1):
                    inner.append(joined[idx + j])
                idx += len(sp)
                if idx < n:
                    between.append(z3.Not(joined[idx - 1]))
            R.ob('n%d.subpaths.each-continuous' % n, ctx, z3.And(*inner) if inner else z3.BoolVal(True), cex=cex, robust=ints)
            R.ob('n%d.subpaths.maximal' % n, ctx, z3.And(*between) if between else z3.BoolVal(True), cex=cex, robust=ints)
        R.sample({'n': n, 'pieces': [len(sp) for sp in subs], 'iscontinuous': bool(cont) if isinstance(cont, bool) else str(cont)})


REPLAY_PRED = '''
pts = %r
segs = [Line(a, b) for a, b in pts]
p = Path(*segs)
n = len(segs)
joined = [segs[i].end == segs[i+1].start for i in range(n-1)]
if p.iscontinuous() != all(joined): REPRODUCED('iscontinuous()=%%r for %%r' %% (p.iscontinuous(), pts))
if all(joined) and p.isclosed() != (segs[0].start == segs[-1].end): REPRODUCED('isclosed wrong for %%r' %% (pts,))
subs = p.continuous_subpaths()
flat = [s for sp in subs for s in sp]
if len(flat) != n or any(a is not b for a, b in zip(flat, segs)): REPRODUCED('subpaths do not concatenate back: %%r' %% (subs,))
if any(not sp.iscontinuous() for sp in subs): REPRODUCED('a returned subpath is not continuous: %%r' %% (subs,))
idx = 0
for sp in subs[:-1]:
    idx += len(sp)
    if joined[idx-1]: REPRODUCED('subpaths are not maximal: %%r' %% (subs,))
if p.start != segs[0].start or p.end != segs[-1].end: REPRODUCED('start/end wrong')
'''


# ----------------------------------------------------------------------------
# F domain: totality of T2t / point under binary64 rounding
# ----------------------------------------------------------------------------
def fam_fp_totality(R, n, timeout_s):
    from svgpathtools.path import Path
    from .. import symx
    R.bound(n=n, lengths='doubles in [1e-3, 1e3]', T='double in (0,1)', solver_timeout_s=timeout_s)
    R.stub('segment.length -> free binary64 l_i')
    symx.OPTS['feas_timeout_ms'] = 700
    import svgpathtools.path as P
    import sys
    if sys.version_info >= (3, 12):
        P.sum = fpx.py312_sum
        R.stub('builtin sum -> Neumaier compensated summation (CPython >= 3.12 float fast path)')

    def run(which):
        def f():
            segs = [StubSeg(k, 'F') for k in range(n)]
            p = Path(*segs)
            T = fpx.symf('T')
            c = Ctx.cur
            c.assume(*[fpx.in_range(s.l, 1e-3, 1e3) for s in segs])
            c.assume(z3.fpGT(T.e, z3.FPVal(0.0, fpx.F64)), z3.fpLT(T.e, z3.FPVal(1.0, fpx.F64)))
            try:
                r = p.T2t(T) if which == 'T2t' else p.point(T)
                return segs, T, ('ok', r)
            except ZeroDivisionError as e:
                return segs, T, ('zerodiv', e)
            except Exception as e:
                return segs, T, ('exc', e)
        return f

    for which in ('T2t', 'point'):
        for ctx, (kind, val) in explore(run(which), maxpaths=200, logic=None):
            R.path(ctx)
            if kind != 'ok':
                R.error('unexpected %s %r' % (kind, val))
                continue
            segs, T, (rk, rv) = val
            name = 'fp.n%d.%s.%s' % (n, which, ''.join('TF'[not d[0]] for d in ctx.decisions[:ctx.pos]))
            if rk == 'ok':
                R.obligations += 1
                R.discharged += 1     # structural: this control path returns a value
                continue
            # an exception path: is it really reachable in binary64?
            R.obligations += 1
            if rk == 'zerodiv':
                # division by a zero fraction l_i/L: needs l_i/L == 0, impossible for
                # l_i >= 1e-3, L <= n*1e3 -- asked with a short budget only
                sz = z3.Solver()
                sz.set('timeout', 3000)
                sz.add(*ctx.pc)
                t_s = time.time()
                rz = str(sz.check())
                R.solver_time += time.time() - t_s
                if rz == 'unsat':
                    R.discharged += 1
                elif rz == 'unknown':
                    R.inconclusive.append(name + '.zero-division-path-reachable?')
                else:
                    mz = sz.model()
                    ls = [fpx.fval(mz, sg.l) for sg in segs]
                    R.obligations -= 1
                    R.direct_cex(name, {'cls': 'ZeroDivisionError in T2t/point', 'inputs': {'lengths': ls, 'T': fpx.fval(mz, T)},
                                        'script': REPLAY_FP % (ls, fpx.fval(mz, T))})
                continue
            # Search heuristic for the sat side (sound: a model is a model, and it is
            # replayed): candidate points are substituted into the path condition and
            # evaluated by z3's rewriter; only if none satisfies it do the solvers
            # get the open query.
            r, model, who = 'unknown', None, None
            import random
            rnd = random.Random(12345 + n)
            t_s = time.time()
            conj = z3.And(*ctx.pc)
            lvars = [sg.l.e for sg in segs]
            for trial in range(4000):
                cand = [10 ** rnd.uniform(-3, 3) for _ in range(n)]
                Tc = 1.0 - 2.0 ** -53
                sub = [(v, z3.FPVal(c, fpx.F64)) for v, c in zip(lvars, cand)] + [(T.e, z3.FPVal(Tc, fpx.F64))]
                if z3.is_true(z3.simplify(z3.substitute(conj, *sub))):
                    r, who = 'sat', 'z3-evaluation-of-sampled-hint'
                    model = dict(('l%d' % i, c) for i, c in enumerate(cand))
                    model['T'] = Tc
                    break
            R.solver_time += time.time() - t_s
            if r != 'sat':
                hint = [z3.fpEQ(T.e, z3.FPVal(1.0 - 2.0 ** -53, fpx.F64))]
                r, model, dt, who = fpx.fp_race(ctx.pc, timeout_s, hints=hint)
                R.solver_time += dt
            if r == 'unsat':
                R.discharged += 1
            elif r == 'unknown':
                R.inconclusive.append(name + '.exception-path-reachable?')
            else:
                ls = [model['l%d' % i] for i in range(n)]
                Tv = model['T']
                R.obligations -= 1
                R.direct_cex(name, {'cls': 'T2t/point fall through for a double T<1 (rounded fraction sum < T)',
                                    'inputs': {'lengths': ls, 'T': Tv, 'solver': who}, 'script': REPLAY_FP % (ls, Tv)})
        R.sample({'n': n, 'method': which})


REPLAY_FP = '''
ls = %r; T = %r
segs = [Line(0j, complex(l, 0)) for l in ls]      # |end-start| is exactly l
assert [s.length() for s in segs] == ls
p = Path(*segs)
for nm in ('T2t', 'point'):
    try:
        getattr(p, nm)(T)
    except Exception as e:
        REPRODUCED('Path.%%s(%%r) raises %%r for line lengths %%r (0 < T < 1)' %% (nm, T, e, ls))
'''


def families(tier):
    M = 'vf.props.c05'
    fams = []
    for n in (1, 2, 3, 4):
        fams.append(('Tt-n%d' % n, M, 'fam_Tt', {'n': n}))
        fams.append(('pred-n%d' % n, M, 'fam_predicates', {'n': n}))
    for n in (1, 2, 3):
        fams.append(('len-n%d' % n, M, 'fam_length_T0T1', {'n': n}))
    # start / end / T2t / point after in-place replacement of segments (negative indices, slices): shared with C16
    from .c16 import ops_alphabet
    ops = [o for o in ops_alphabet() if o[0] in ('setitem', 'setslice', 'insert', 'delitem')]
    fams.append(('after-mutation', 'vf.props.c16', 'fam_path_history', {'k': 1, 'first_ops': ops, 'prequery': True}))
    # the same with T2t(T) and point(T) observed before and after the edit (stale per-segment fractions), incl. start=/end=
    ops_T = [o for o in ops_alphabet() if o[0] in ('setitem', 'start=', 'end=')]
    fams.append(('after-mutation-Tt', 'vf.props.c16', 'fam_path_history', {'k': 1, 'first_ops': ops_T, 'prequery': True, 'with_T': True}))
    # T2t/point of a reversed() copy of a path whose lengths are cached, and of the original afterwards: shared with C09
    for n in (2, 3):
        fams.append(('reversed-after-query-n%d' % n, 'vf.props.c09', 'fam_reversed_after_query', {'n': n}))
    fams.append(('fp-n3', M, 'fam_fp_totality', {'n': 3, 'timeout_s': 150 if tier == 'quick' else 900}))
    if tier == 'thorough':
        fams.append(('fp-n2', M, 'fam_fp_totality', {'n': 2, 'timeout_s': 900}))
        fams.append(('fp-n4', M, 'fam_fp_totality', {'n': 4, 'timeout_s': 1200}))
        fams.append(('len-n4', M, 'fam_length_T0T1', {'n': 4}))
    return fams
