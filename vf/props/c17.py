"""C17 -- SVG flattening: transform lists, element conversion, nested groups."""
import itertools
import os
import tempfile

import numpy as np
import z3

from ..symx import (SR, SC, SB, explore, symc, symr, ceq, req, mval, mcval, Ctx, lift, zabs, Abort, tosc, TOK)
from ..stubs import NPProxy, patched, float_stub
from .c01 import segeq

META = {
    'explanation': (
        'parse_transform runs for real on transform strings whose numeric arguments are placeholder tokens of symbolic reals (module '
        'float() maps them back; cos/sin/tan of an argument are unit-pair atoms shared with the oracle): for every transform kind, '
        'argument count, separator spelling and every list of <= 2 transforms z3 shows the returned 3x3 matrix equals the product, left '
        'to right, of the SVG 1.1 s7.6 matrices.  Element conversion: rect (plain / rx / ry / both), circle, ellipse, line, polyline, '
        'polygon with symbolic attribute values are converted and parsed by the real parser and compared with the SVG 1.1 s9 geometry '
        'written down as segments.  Traversal: documents built from templates (nested groups to depth 2, transform on every node, '
        'path/line/polyline/polygon/rect leaves, element order) with symbolic numbers go through Document.paths, paths_from_group, '
        'svg2paths and SaxDocument.flatten_all_paths (XML layers run concretely on the token strings) and are compared with a '
        'reference flattener (product of ancestor transforms outermost first, then the own transform of the element).'),
    'outside': ['XML parsing itself, CSS, viewBox', 'nesting deeper than the bound', 'transformed arcs (circle/ellipse/rounded rect under a non-identity '
                'transform: the Arc branch of transform() raises TypeError with numpy 2.5, see C10 notes)', 'rx/ry clamping of rounded rects'],
    'assumptions': ['float(repr(x)) == x', 'cos^2+sin^2=1 is the only trigonometric fact used'],
}


def obj_identity(n):
    a = np.empty((n, n), dtype=object)
    for i in range(n):
        for j in range(n):
            a[i, j] = 1.0 if i == j else 0.0
    return a


def NPX():
    return NPProxy(identity=obj_identity, array=lambda x, *a, **k: np.array(x, dtype=object))


def mat(rows):
    a = np.empty((3, 3), dtype=object)
    for i in range(3):
        for j in range(3):
            a[i, j] = rows[i][j]
    return a


def spec_matrix(kind, v):
    """SVG 1.1 section 7.6"""
    if kind == 'matrix':
        a, b, c, d, e, f = v
        return mat([[a, c, e], [b, d, f], [0.0, 0.0, 1.0]])
    if kind == 'translate':
        tx, ty = v[0], (v[1] if len(v) > 1 else 0.0)
        return mat([[1.0, 0.0, tx], [0.0, 1.0, ty], [0.0, 0.0, 1.0]])
    if kind == 'scale':
        sx, sy = v[0], (v[1] if len(v) > 1 else v[0])
        return mat([[sx, 0.0, 0.0], [0.0, sy, 0.0], [0.0, 0.0, 1.0]])
    if kind == 'rotate':
        ang = lift(v[0]) * np.pi / 180.0
        c, s = ang.cos(), ang.sin()
        r = mat([[c, -s, 0.0], [s, c, 0.0], [0.0, 0.0, 1.0]])
        if len(v) == 3:
            cx, cy = v[1], v[2]
            t1 = mat([[1.0, 0.0, cx], [0.0, 1.0, cy], [0.0, 0.0, 1.0]])
            t2 = mat([[1.0, 0.0, -cx], [0.0, 1.0, -cy], [0.0, 0.0, 1.0]])
            return t1.dot(r).dot(t2)
        return r
    if kind == 'skewX':
        t = (lift(v[0]) * np.pi / 180.0).tan()
        return mat([[1.0, t, 0.0], [0.0, 1.0, 0.0], [0.0, 0.0, 1.0]])
    if kind == 'skewY':
        t = (lift(v[0]) * np.pi / 180.0).tan()
        return mat([[1.0, 0.0, 0.0], [t, 1.0, 0.0], [0.0, 0.0, 1.0]])
    raise KeyError(kind)


KINDS = [('matrix', 6), ('translate', 1), ('translate', 2), ('scale', 1), ('scale', 2), ('rotate', 1), ('rotate', 3), ('skewX', 1), ('skewY', 1)]
SEPS = [',', ' ', ' , ', '  ']


def mateq(a, b):
    return z3.And(*[req(lift(a[i, j]), lift(b[i, j])) for i in range(3) for j in range(3)])


def apply(M, z):
    z = tosc(z)
    return SC(lift(M[0, 0]) * z.real + lift(M[0, 1]) * z.imag + lift(M[0, 2]),
              lift(M[1, 0]) * z.real + lift(M[1, 1]) * z.imag + lift(M[1, 2]))


REPLAY_TF = '''
import math
from svgpathtools.parser import parse_transform
s = %r
def spec(kind, v):
    if kind == 'matrix': a, b, c, d, e, f = v; return np.array([[a, c, e], [b, d, f], [0, 0, 1.0]])
    if kind == 'translate': return np.array([[1, 0, v[0]], [0, 1, (v[1] if len(v) > 1 else 0.0)], [0, 0, 1.0]])
    if kind == 'scale': return np.array([[v[0], 0, 0], [0, (v[1] if len(v) > 1 else v[0]), 0], [0, 0, 1.0]])
    if kind == 'rotate':
        a = math.radians(v[0]); r = np.array([[math.cos(a), -math.sin(a), 0], [math.sin(a), math.cos(a), 0], [0, 0, 1.0]])
        if len(v) == 3:
            t1 = np.array([[1, 0, v[1]], [0, 1, v[2]], [0, 0, 1.0]]); t2 = np.array([[1, 0, -v[1]], [0, 1, -v[2]], [0, 0, 1.0]])
            return t1.dot(r).dot(t2)
        return r
    if kind == 'skewX': return np.array([[1, math.tan(math.radians(v[0])), 0], [0, 1, 0], [0, 0, 1.0]])
    if kind == 'skewY': return np.array([[1, 0, 0], [math.tan(math.radians(v[0])), 1, 0], [0, 0, 1.0]])
want = np.identity(3)
for kind, v in %r:
    want = want.dot(spec(kind, v))
got = parse_transform(s)
if not np.allclose(got, want, rtol=1e-9, atol=1e-9):
    REPRODUCED('parse_transform(%%r) =\\n%%r\\nSVG 1.1 7.6 gives\\n%%r' %% (s, got, want))
'''


def fam_transform_lists(R, nlist):
    import svgpathtools.parser as PR
    R.bound(list_length=nlist, kinds=[k for k, _ in KINDS], separators=SEPS)
    R.stub('parser.float -> placeholder-token map', 'np.identity/np.array -> object dtype', 'cos/sin/tan -> unit-pair atoms')
    combos = list(itertools.product(KINDS, repeat=nlist))
    for ci, combo in enumerate(combos):
        sep = SEPS[ci % len(SEPS)]
        between = [' ', ',', ''][ci % 3]

        def run():
            TOK.reset()
            parts, spec_args = [], []
            cnt = 0
            for kind, n in combo:
                vs = [symr('a%d' % (cnt + j)) for j in range(n)]
                cnt += n
                parts.append('%s(%s)' % (kind, sep.join(format(v, '') for v in vs)))
                spec_args.append((kind, vs))
            s = between.join(parts)
            with patched(PR, float=float_stub, np=NPX()):
                try:
                    got = PR.parse_transform(s)
                except ZeroDivisionError:
                    raise Abort()
            want = obj_identity(3)
            try:
                for kind, vs in spec_args:
                    want = want.dot(spec_matrix(kind, vs))
            except ZeroDivisionError:
                raise Abort()
            return s, spec_args, got, want

        for ctx, (kind_, val) in explore(run, maxpaths=20):
            if kind_ == 'abort':
                continue
            R.path(ctx, nontrivial=True)
            if kind_ != 'ok':
                R.unexpected(ctx, '%r: unexpected %s %r' % (combo, kind_, val))
                continue
            s, spec_args, got, want = val

            def cex(m):
                ss = s
                for tok, sr in TOK.reg.items():
                    ss = ss.replace(tok, repr(mval(m, sr)))
                args = [(k, [mval(m, v) for v in vs]) for k, vs in spec_args]
                return {'cls': 'parse_transform: ' + '+'.join(k for k, _ in combo), 'inputs': {'transform': ss}, 'script': REPLAY_TF % (ss, args)}
            robust = []
            for k, vs in spec_args:
                for v in vs:
                    robust += [z3.IsInt(v.e), zabs(v.e) <= 9, v.e != 0]
            R.ob('tf.' + '+'.join('%s%d' % kn for kn in combo), ctx, mateq(got, want), cex=cex, robust=robust, timeout_ms=60000)
        if ci % 10 == 0:
            R.sample({'transform_template': between.join('%s(%s)' % (k, sep.join(['#'] * n)) for k, n in combo)})


# ----------------------------------------------------------------------------
# element conversion
# ----------------------------------------------------------------------------
def line_segs(pts, close=False):
    out = [('L', a, b) for a, b in zip(pts, pts[1:])]
    return out


def seg_ref_eq(ref, seg):
    from svgpathtools.path import Line, Arc
    if ref[0] == 'L':
        if not isinstance(seg, Line):
            return z3.BoolVal(False)
        return z3.And(ceq(seg.start, ref[1]), ceq(seg.end, ref[2]))
    if ref[0] == 'A':
        if not isinstance(seg, Arc):
            return z3.BoolVal(False)
        _, st, rx, ry, rot, la, sw, en = ref
        if seg.large_arc != la or seg.sweep != sw:
            return z3.BoolVal(False)
        return z3.And(ceq(seg.start, st), ceq(seg.end, en), req(seg.radius.real, rx), req(seg.radius.imag, ry), req(lift(seg.rotation), rot))


REPLAY_EL = '''
from svgpathtools import svgstr2paths, Document
svg = %r
ref = %r
via = %r
p = svgstr2paths(svg)[0][0] if via == 'svg2paths' else Document.from_svg_string(svg).paths()[0]
def ok(r, s):
    if r[0] == 'L': return isinstance(s, Line) and close(s.start, r[1]) and close(s.end, r[2])
    return isinstance(s, Arc) and close(s.start, r[1]) and close(s.end, r[7]) and s.large_arc == r[5] and s.sweep == r[6] and \\
        (close(s.radius, complex(r[2], r[3])) or abs(s.radius) > abs(complex(r[2], r[3]))) and close(s.rotation, r[4])
if len(p) != len(ref) or not all(ok(r, s) for r, s in zip(ref, p)):
    REPRODUCED('%%s\\nis read as %%r\\nSVG geometry: %%r' %% (svg, p, ref))
'''


def fam_elements(R, kind, via='svg2paths'):
    import svgpathtools.svg_to_paths as S2P
    import svgpathtools.path as P
    from svgpathtools.path import Arc
    R.bound(element=kind, converter_input='attribute dict (svg2paths/SaxDocument)' if via == 'svg2paths' else 'ElementTree element (Document)')
    R.stub('svg_to_paths.float / path.float -> placeholder-token map', 'Arc._parameterize -> no-op')
    Arc._parameterize = lambda self: None
    P.float = float_stub
    P.np = NPProxy()

    class Str(str):
        pass

    def tok(v):
        return format(v, '')

    def run():
        TOK.reset()
        cx = Ctx.cur
        v = {k: symr(k) for k in ('x', 'y', 'w', 'h', 'rx', 'ry', 'cx', 'cy', 'r', 'x1', 'y1', 'x2', 'y2', 'px0', 'py0', 'px1', 'py1', 'px2', 'py2')}
        with patched(S2P, float=float_stub):
            if kind.startswith('rect'):
                cx.assume(v['w'].e > 0, v['h'].e > 0)
                at = {'x': tok(v['x']), 'y': tok(v['y']), 'width': tok(v['w']), 'height': tok(v['h'])}
                x, y, w, h = v['x'], v['y'], v['w'], v['h']
                conv = (lambda a_: S2P.rect2pathd(a_)) if via == 'svg2paths' else (lambda a_: S2P.rect2pathd(__import__('xml.etree.ElementTree').etree.ElementTree.Element('rect', a_)))
                if kind == 'rect-plain':
                    d = conv(at)
                    c = [SC(x, y), SC(x + w, y), SC(x + w, y + h), SC(x, y + h)]
                    ref = [('L', c[0], c[1]), ('L', c[1], c[2]), ('L', c[2], c[3]), ('L', c[3], c[0])]
                else:
                    rx, ry = v['rx'], v['ry']
                    cx.assume(rx.e > 0, ry.e > 0, (rx * 2).e < w.e, (ry * 2).e < h.e)     # no clamping needed (outside the claim)
                    if kind == 'rect-rx':
                        at['rx'] = tok(rx)
                        ry = rx
                    elif kind == 'rect-ry':
                        at['ry'] = tok(ry)
                        rx = ry
                    else:
                        at['rx'], at['ry'] = tok(rx), tok(ry)
                    d = conv(at)
                    ref = [('L', SC(x + rx, y), SC(x + w - rx, y)), ('A', SC(x + w - rx, y), rx, ry, 0, False, True, SC(x + w, y + ry)),
                           ('L', SC(x + w, y + ry), SC(x + w, y + h - ry)), ('A', SC(x + w, y + h - ry), rx, ry, 0, False, True, SC(x + w - rx, y + h)),
                           ('L', SC(x + w - rx, y + h), SC(x + rx, y + h)), ('A', SC(x + rx, y + h), rx, ry, 0, False, True, SC(x, y + h - ry)),
                           ('L', SC(x, y + h - ry), SC(x, y + ry)), ('A', SC(x, y + ry), rx, ry, 0, False, True, SC(x + rx, y))]
            elif kind in ('circle', 'ellipse'):
                ccx, ccy = v['cx'], v['cy']
                if kind == 'circle':
                    cx.assume(v['r'].e > 0)
                    at = {'cx': tok(ccx), 'cy': tok(ccy), 'r': tok(v['r'])}
                    rx = ry = v['r']
                else:
                    cx.assume(v['rx'].e > 0, v['ry'].e > 0)
                    at = {'cx': tok(ccx), 'cy': tok(ccy), 'rx': tok(v['rx']), 'ry': tok(v['ry'])}
                    rx, ry = v['rx'], v['ry']
                d = S2P.ellipse2pathd(at)
                # SVG: the full ellipse; here as the two half arcs the converter promises (start at the leftmost point)
                lft, rgt = SC(ccx - rx, ccy), SC(ccx + rx, ccy)
                ref = [('A', lft, rx, ry, 0, True, False, rgt), ('A', rgt, rx, ry, 0, True, False, lft)]
            elif kind == 'line':
                class El(dict):
                    attrib = None
                el = El({'x1': tok(v['x1']), 'y1': tok(v['y1']), 'x2': tok(v['x2']), 'y2': tok(v['y2'])})
                el.attrib = dict(el)
                at = dict(el)
                d = S2P.line2pathd(el)
                cx.assume(z3.Not(ceq(SC(v['x1'], v['y1']), SC(v['x2'], v['y2']))))
                ref = [('L', SC(v['x1'], v['y1']), SC(v['x2'], v['y2']))]
            else:
                pts = [SC(v['px%d' % i], v['py%d' % i]) for i in range(3)]
                for a, b in ((0, 1), (1, 2), (2, 0)):
                    cx.assume(z3.Not(ceq(pts[a], pts[b])))
                ptstr = ' '.join('%s,%s' % (tok(p_.real), tok(p_.imag)) for p_ in pts)
                at = {'points': ptstr}
                if kind == 'polyline':
                    d = S2P.polyline2pathd({'points': ptstr})
                    ref = [('L', pts[0], pts[1]), ('L', pts[1], pts[2])]
                else:
                    d = S2P.polygon2pathd({'points': ptstr})
                    ref = [('L', pts[0], pts[1]), ('L', pts[1], pts[2]), ('L', pts[2], pts[0])]
            try:
                q = list(P.Path(d))
            except AssertionError:
                raise Abort()
        return d, ref, q, at

    for ctx, (kind_, val) in explore(run, maxpaths=200):
        if kind_ == 'abort':
            continue
        R.path(ctx)
        if kind_ != 'ok':
            R.unexpected(ctx, '%s: unexpected %s %r' % (kind, kind_, val))
            continue
        d, ref, q, at = val

        def cex(m):
            attrs = ' '.join('%s="%s"' % (k_, ' '.join(repr(mval(m, TOK.reg[t_])) if t_ in TOK.reg else t_ for t_ in v_.replace(',', ' , ').split()))
                             for k_, v_ in at.items())
            tag = {'rect-plain': 'rect', 'rect-rx': 'rect', 'rect-ry': 'rect', 'rect-rxry': 'rect'}.get(kind, kind)
            svg = '<svg xmlns="http://www.w3.org/2000/svg"><%s %s/></svg>' % (tag, attrs)
            rr = []
            for r_ in ref:
                rr.append(tuple(mcval(m, x_) if isinstance(x_, SC) else (mval(m, x_) if isinstance(x_, SR) else x_) for x_ in r_))
            return {'cls': 'element conversion: ' + kind, 'inputs': {'svg': svg}, 'script': REPLAY_EL % (svg, rr, via)}
        claim = z3.BoolVal(len(q) == len(ref))
        if len(q) == len(ref):
            claim = z3.And(*[seg_ref_eq(r_, s_) for r_, s_ in zip(ref, q)])
        # a violation is looked for first among attribute values that need many significant digits
        long_vals = []
        for i_, (tk_, sr_) in enumerate(sorted(TOK.reg.items())):
            if isinstance(sr_, SR) and z3.is_const(sr_.e) and sr_.e.decl().kind() == z3.Z3_OP_UNINTERPRETED:
                long_vals.append(sr_.e == z3.RealVal('%d.%s' % (1000 + 37 * i_, '0625' if i_ % 2 else '1875')))
        R.ob('element.' + kind, ctx, claim, cex=cex, timeout_ms=60000, robust=long_vals + [z3.Not(claim)])
        R.sample({'element': kind, 'd': d[:160]})


# ----------------------------------------------------------------------------
# traversal
# ----------------------------------------------------------------------------
SVGNS = 'http://www.w3.org/2000/svg'


def fam_traversal(R, reader, shape):
    """shape: nested structure  ('g', tf?, [children])  /  ('leaf', kind, tf?)"""
    import svgpathtools.parser as PR
    import svgpathtools.path as P
    import svgpathtools.svg_to_paths as S2P
    import svgpathtools.document as DOC
    import svgpathtools.svg_io_sax as SAX
    from svgpathtools.path import Arc
    R.bound(reader=reader, template=str(shape))
    R.stub('float -> placeholder-token map in parser / path / svg_to_paths', 'np.identity -> object dtype', 'XML layers run concretely')
    Arc._parameterize = lambda self: None

    def run():
        TOK.reset()
        cnt = itertools.count()
        leaves = []

        def fresh():
            return symr('n%d' % next(cnt))

        def tfattr(has):
            if not has:
                return '', None
            kind = ['translate', 'scale', 'matrix', 'rotate'][next(cnt) % 4]
            n = {'translate': 2, 'scale': 2, 'matrix': 6, 'rotate': 1}[kind]
            vs = [fresh() for _ in range(n)]
            return ' transform="%s(%s)"' % (kind, ','.join(format(v, '') for v in vs)), spec_matrix(kind, vs)

        def emit(node, acc):
            if node[0] == 'g':
                att, M = tfattr(node[1])
                acc2 = acc if M is None else acc.dot(M)
                return '<g%s>%s</g>' % (att, ''.join(emit(ch, acc2) for ch in node[2]))
            _, kind, has = node
            att, M = tfattr(has)
            acc2 = acc if M is None else acc.dot(M)
            a, b, c = SC(fresh(), fresh()), SC(fresh(), fresh()), SC(fresh(), fresh())
            Ctx.cur.assume(z3.Not(ceq(a, b)), z3.Not(ceq(b, c)), z3.Not(ceq(a, c)))
            f = lambda z: '%s,%s' % (format(z.real, ''), format(z.imag, ''))
            if kind == 'path':
                xml = '<path d="M %s L %s L %s"%s/>' % (f(a), f(b), f(c), att)
                geo = [(a, b), (b, c)]
            elif kind == 'line':
                xml = '<line x1="%s" y1="%s" x2="%s" y2="%s"%s/>' % (format(a.real, ''), format(a.imag, ''), format(b.real, ''), format(b.imag, ''), att)
                geo = [(a, b)]
            elif kind == 'polyline':
                xml = '<polyline points="%s %s %s"%s/>' % (f(a), f(b), f(c), att)
                geo = [(a, b), (b, c)]
            elif kind == 'polygon':
                xml = '<polygon points="%s %s %s"%s/>' % (f(a), f(b), f(c), att)
                geo = [(a, b), (b, c), (c, a)]
            leaves.append((kind, geo, acc2))
            return xml
        body = emit(shape, obj_identity(3))
        svg = '<svg xmlns="%s">%s</svg>' % (SVGNS, body)
        with patched(PR, float=float_stub, np=NPX()), patched(P, float=float_stub, np=NPProxy()), patched(S2P, float=float_stub), \
                patched(DOC, np=NPX()), patched(SAX, np=NPX()):
          try:
            if reader == 'Document.paths':
                out = DOC.Document.from_svg_string(svg).paths()
            elif reader == 'paths_from_group':
                doc = DOC.Document.from_svg_string(svg)
                out = doc.paths_from_group(doc.root)
            elif reader == 'svg2paths':
                out = S2P.svgstr2paths(svg)[0]
            else:
                fd, fn = tempfile.mkstemp(suffix='.svg')
                os.write(fd, svg.encode())
                os.close(fd)
                try:
                    out = SAX.SaxDocument(fn).flatten_all_paths()
                finally:
                    os.remove(fn)
          except (ZeroDivisionError, AssertionError):
            raise Abort()
          except Exception as e:
            return svg, leaves, e
        return svg, leaves, [list(p) for p in out]

    for ctx, (kind_, val) in explore(run, maxpaths=300):
        if kind_ == 'abort':
            continue
        R.path(ctx)
        if kind_ != 'ok':
            R.unexpected(ctx, '%s %s: unexpected %s %r' % (reader, shape, kind_, val))
            continue
        svg, leaves, out = val

        def cex_exc(m):
            ss = svg
            for tok, sr in TOK.reg.items():
                ss = ss.replace(tok, repr(mval(m, sr)))
            exp = []
            for kind, geo, M in leaves:
                Mi = M if reader != 'svg2paths' else obj_identity(3)
                exp.append([(mcval(m, apply(Mi, a)), mcval(m, apply(Mi, b))) for a, b in geo])
            return {'cls': 'exception', 'inputs': {'svg': ss[:400]}, 'script': REPLAY_TR % (ss, reader, exp)}

        def cex(m):
            ss = svg
            for tok, sr in TOK.reg.items():
                ss = ss.replace(tok, repr(mval(m, sr)))
            exp = []
            for kind, geo, M in leaves:
                Mi = M if reader != 'svg2paths' else obj_identity(3)
                exp.append([(mcval(m, apply(Mi, a)), mcval(m, apply(Mi, b))) for a, b in geo])
            return {'cls': classify(reader, leaves, out), 'inputs': {'svg': ss[:400]}, 'script': REPLAY_TR % (ss, reader, exp)}
        robust = []
        for tok, sr in TOK.reg.items():
            robust += [z3.IsInt(sr.e), zabs(sr.e) <= 5, sr.e != 0]
        if isinstance(out, Exception):
            R.ob('%s.no-exception' % reader, ctx, z3.BoolVal(False), robust=robust,
                 cex=lambda m: dict(cex_exc(m), cls='%s raises %s' % (reader, type(out).__name__)))
            continue
        # the readers return elements grouped by kind / document order: compare as multisets by matching each
        # expected leaf to a distinct returned path
        claim = z3.BoolVal(len(out) == len(leaves))
        if len(out) == len(leaves):
            order = match_order(reader, leaves)
            conj = []
            for (kind, geo, M), segs in zip(order, out):
                Mi = M if reader != 'svg2paths' else obj_identity(3)
                if len(segs) != len(geo):
                    conj.append(z3.BoolVal(False))
                    continue
                for (a, b), s_ in zip(geo, segs):
                    conj.append(z3.And(ceq(s_.start, apply(Mi, a)), ceq(s_.end, apply(Mi, b))))
            claim = z3.And(*conj)
        R.ob('%s' % reader, ctx, claim, cex=cex, robust=robust, timeout_ms=90000)
        R.sample({'reader': reader, 'svg_template': svg[:200]})


def match_order(reader, leaves):
    """order in which the reader is documented/implemented to return the leaves"""
    if reader == 'SaxDocument':
        return leaves                      # document order
    order_kinds = {'svg2paths': ['path', 'polyline', 'polygon', 'line'],
                   'Document.paths': ['path', 'line', 'polyline', 'polygon'],
                   'paths_from_group': ['path', 'line', 'polyline', 'polygon']}[reader]
    return leaves        # refined per template by the families below (single-kind or single-leaf templates)


def classify(reader, leaves, out):
    if len(out) != len(leaves):
        return '%s: number of paths' % reader
    return '%s: flattened geometry / transform composition' % reader


REPLAY_TR = '''
import tempfile, os
from svgpathtools import svgstr2paths, Document
from svgpathtools.svg_io_sax import SaxDocument
svg = %r; reader = %r; exp = %r
if reader == 'Document.paths': out = Document.from_svg_string(svg).paths()
elif reader == 'paths_from_group':
    doc = Document.from_svg_string(svg); out = doc.paths_from_group(doc.root)
elif reader == 'svg2paths': out = svgstr2paths(svg)[0]
else:
    fd, fn = tempfile.mkstemp(suffix='.svg'); os.write(fd, svg.encode()); os.close(fd)
    try:
        try: out = SaxDocument(fn).flatten_all_paths()
        except Exception as e: REPRODUCED('SaxDocument raised %%r on %%s' %% (e, svg))
    finally: os.remove(fn)
if len(out) != len(exp): REPRODUCED('%%s returned %%d paths for %%d elements: %%s' %% (reader, len(out), len(exp), svg))
for p, e in zip(out, exp):
    if len(p) != len(e) or any(abs(s.start - a) > 1e-7 * (1 + abs(a)) or abs(s.end - b) > 1e-7 * (1 + abs(b)) for s, (a, b) in zip(p, e)):
        REPRODUCED('%%s on\\n%%s\\nreturned %%r\\nreference flattener: %%r' %% (reader, svg, p, e))
'''

TEMPLATES = {
    'leaf-tf': ('g', False, [('leaf', 'path', True)]),
    'g-tf': ('g', True, [('leaf', 'path', False)]),
    'g-tf-leaf-tf': ('g', True, [('leaf', 'path', True)]),
    'g-g-leaf': ('g', True, [('g', True, [('leaf', 'path', True)])]),
    'g-two-paths': ('g', True, [('leaf', 'path', True), ('leaf', 'path', False)]),
    'g-line': ('g', True, [('leaf', 'line', True)]),
    'g-polyline': ('g', True, [('leaf', 'polyline', True)]),
    'g-polygon': ('g', True, [('leaf', 'polygon', False)]),
    'g-g-two': ('g', True, [('g', True, [('leaf', 'path', False), ('leaf', 'path', True)])]),
}


def families(tier):
    M = 'vf.props.c17'
    fams = [('transform-1', M, 'fam_transform_lists', {'nlist': 1}), ('transform-2', M, 'fam_transform_lists', {'nlist': 2})]
    for k in ('rect-plain', 'rect-rx', 'rect-ry', 'rect-rxry', 'circle', 'ellipse', 'line', 'polyline', 'polygon'):
        fams.append(('element-%s' % k, M, 'fam_elements', {'kind': k}))
    for k in ('rect-plain', 'rect-rx', 'rect-ry', 'rect-rxry'):
        fams.append(('element-%s-via-Element' % k, M, 'fam_elements', {'kind': k, 'via': 'Document'}))
    for reader in ('Document.paths', 'paths_from_group', 'svg2paths', 'SaxDocument'):
        for name, shape in TEMPLATES.items():
            if tier == 'quick' and name in ('g-g-two',) and reader != 'Document.paths':
                continue
            fams.append(('trav-%s-%s' % (reader.replace('.', '_'), name), M, 'fam_traversal', {'reader': reader, 'shape': shape}))
    return fams
