"""C06 -- length() is the arc length (the algebraic parts)."""
import z3

from ..symx import (SR, SC, SB, explore, symc, symr, ceq, req, mval, mcval, Ctx, lift, zabs, Abort, sq, OPTS, NonFinite)
from ..stubs import NPProxy, patched
from .c03 import deriv_oracle, bern, REPLAY_ORACLE

META = {
    'explanation': (
        'Line.length: identity.  QuadraticBezier.length closed form (generic branch): the real code runs on symbolic control points and '
        't0,t1 (sqrt -> sqrt atoms, log -> uninterpreted ln with ln(1)=0); the returned term s is differentiated with respect to t1 by '
        'the harness (D sqrt u = Du/(2 sqrt u), D ln u = Du/u) and z3 shows ds/dt1 = |dB/dt(t1)| and s(t0,t0) = 0, i.e. s is the '
        'antiderivative of the speed (fundamental theorem of calculus trusted).  Collinear fold-back quadratics (b anti-parallel to a): '
        'zero denominators / log(0) produce a NaN token exactly as numpy does, the isnan fallback runs, and its three piecewise '
        'formulas are compared with |a| * integral |2t-m| dt.  segment_length (no-scipy recursion) with an uninterpreted point(): the '
        'result is the sum of chords over the dyadic partition it evaluated.  Path.length / length(T0,T1): sum and composition of the '
        'segment lengths (stub segments), shared with C05.  CubicBezier.length / Arc.length dispatch (with and without scipy): both integrators '
        'are replaced by an uninterpreted kernel Klen(a,b) with the arc-length contract; the interval, the integrand (= |B\'(tau)| as a polynomial '
        'identity for cubics, = |Arc.derivative(tau)| for arcs), the arguments of the fallback and the returned term are checked; a returned term '
        'that is not the kernel itself (a closed-form shortcut) must satisfy s(t0,t0) = 0 and ds/dt1 = speed.'),
    'outside': ['that QUADPACK (scipy.integrate.quad) and the chord recursion converge to the arc length of cubics and elliptic arcs to 1e-6 '
                '(C/Fortran code behind a boundary; no closed form) -- NOT claimed', 'the 5e-3 cusp clause', 'cancellation of the closed form for nearly '
                'collinear control points (IEEE effect on transcendental functions)', 'the |a| < 1e-12 branch for 0 < |a| < 1e-12 (approximation)'],
    'assumptions': ['fundamental theorem of calculus', 'ln is injective enough: only ln(1) = 0 and its derivative are used'],
}

LN = z3.Function('ln', z3.RealSort(), z3.RealSort())


class NaNTok:
    """numpy nan: absorbs arithmetic; comparisons are False"""

    def _r(self, *a):
        return self
    __add__ = __radd__ = __sub__ = __rsub__ = __mul__ = __rmul__ = __truediv__ = __rtruediv__ = __neg__ = __pow__ = _r

    def log(self):
        return self

    def sqrt(self):
        return self

    def __lt__(self, o):
        return False
    __le__ = __gt__ = __ge__ = __lt__

    def __eq__(self, o):
        return False

    def __ne__(self, o):
        return True
    __hash__ = None

    def __repr__(self):
        return 'nan'


NAN = NaNTok()


class NSR(SR):
    """SR with numpy-scalar division semantics: x/0 -> nan-or-inf token (the
    code under test only asks isnan of the final result, where a zero
    denominator implies gamma = 0 and hence 0*inf = nan; see DESIGN)"""
    __slots__ = ()


def np_div(a, b):
    b = lift(b)
    if not (b != 0):
        return NAN
    return SR(lift(a).e / b.e)


def sr_log(x):
    if not (x > 0):
        return NAN            # log(0) = -inf (times gamma = 0 -> nan), log(negative) = nan
    return SR(LN(x.e), tag=('ln', x.e))


def isnan_tok(x):
    return x is NAN


D_HOOKS = {}     # uninterpreted function name -> derivative rule(e, var, ctx, memo)


def D(e, var, ctx, memo=None):
    """formal derivative of a z3 real term w.r.t. the constant `var`;
    sqrt atoms via ctx.sqrt_memo, ln via LN."""
    if memo is None:
        memo = {}
    k = e.get_id()
    if k in memo:
        return memo[k]
    r = None
    if z3.is_rational_value(e) or z3.is_algebraic_value(e):
        r = z3.RealVal(0)
    elif z3.is_const(e):
        if z3.eq(e, var):
            r = z3.RealVal(1)
        else:
            rad = None
            for (re_, q) in [(v[0], v[1]) for kk, v in ctx.sqrt_memo.items() if isinstance(kk, int)]:
                if z3.eq(q, e):
                    rad = re_
                    break
            if rad is not None:
                r = D(rad, var, ctx, memo) / (2 * e)
            else:
                r = z3.RealVal(0)
    else:
        kind = e.decl().kind()
        ch = e.children()
        if kind == z3.Z3_OP_ADD:
            r = sum((D(c, var, ctx, memo) for c in ch[1:]), D(ch[0], var, ctx, memo))
        elif kind == z3.Z3_OP_SUB:
            r = D(ch[0], var, ctx, memo)
            for c in ch[1:]:
                r = r - D(c, var, ctx, memo)
        elif kind == z3.Z3_OP_UMINUS:
            r = -D(ch[0], var, ctx, memo)
        elif kind == z3.Z3_OP_MUL:
            r = z3.RealVal(0)
            for i in range(len(ch)):
                term = D(ch[i], var, ctx, memo)
                for j, c in enumerate(ch):
                    if j != i:
                        term = term * c
                r = r + term
        elif kind == z3.Z3_OP_DIV:
            u, v = ch
            r = (D(u, var, ctx, memo) * v - u * D(v, var, ctx, memo)) / (v * v)
        elif kind == z3.Z3_OP_UNINTERPRETED and e.decl().name() == 'ln':
            r = D(ch[0], var, ctx, memo) / ch[0]
        elif kind == z3.Z3_OP_UNINTERPRETED and e.decl().name() in D_HOOKS:
            r = D_HOOKS[e.decl().name()](e, var, ctx, memo)
        elif kind == z3.Z3_OP_TO_REAL:
            r = z3.RealVal(0)
        else:
            raise NotImplementedError('D: %s' % e.decl())
    memo[k] = r
    return r


REPLAY_QLEN = REPLAY_ORACLE + '''
ps = %r; t0 = %r; t1 = %r
seg = QuadraticBezier(*ps)
got = seg.length(t0, t1)
N = 20000
pts = [bernF(ps, t0 + (t1 - t0) * i / N) for i in range(N + 1)]
chord = sum(abs(pts[i + 1] - pts[i]) for i in range(N))
if not (got == got) or abs(got - chord) > 1e-5 * (1 + chord):
    REPRODUCED('QuadraticBezier%%r.length(%%r,%%r) = %%r, chord sum over %%d pieces = %%r' %% (tuple(ps), t0, t1, got, N, chord))
'''


def fam_line(R):
    import svgpathtools.path as P

    def run():
        a, b = symc('a'), symc('b')
        t0, t1 = symr('t0'), symr('t1')
        ln = P.Line(a, b)
        return a, b, t0, t1, ln.length(t0, t1), ln.length()

    for ctx, (kind, val) in explore(run, maxpaths=10):
        R.path(ctx, nontrivial=True)
        if kind != 'ok':
            R.unexpected(ctx, 'unexpected %s %r' % (kind, val))
            continue
        a, b, t0, t1, s, full = val
        chord = abs(b - a)
        R.ob('line.length(t0,t1)', ctx, req(s, chord * (t1 - t0)))
        R.ob('line.length()', ctx, req(full, chord))
        R.ob('line.nonneg', ctx, lift(s).e >= 0, extra=[t0.e <= t1.e])
        R.sample({'line': 'symbolic'})


def fam_quad_generic(R):
    import sys
    import svgpathtools.path as P
    R.bound(control_points='symbolic, a != 0 (|a| >= 1e-12 branch), denominators non-zero')
    R.stub('log -> uninterpreted ln (ln(1)=0, D ln u = Du/u)', 'sqrt -> sqrt atoms', 'isnan -> False on finite symbolic values')
    code = P.QuadraticBezier.length.__code__

    OPTS['feas_timeout_ms'] = 3000
    OPTS['model_cache'] = False     # model evaluation with algebraic numbers can hang

    def run():
        # exploration inputs: a 2-parameter family (start 0, end 1, free control point); the
        # obligations below are posed for ALL control points (i) resp. all (c2,c1,c0) (ii)
        ps = [SC(0, 0), symc('p1'), SC(1, 0)]
        t0, t1 = symr('t0'), symr('t1')
        cx = Ctx.cur
        cx.assume(t0.e > 0, t0.e < t1.e, t1.e < 1)
        seg = P.QuadraticBezier(*ps)
        SR.log = sr_log
        grabbed = {}

        def tracer(frame, event, arg):
            if frame.f_code is code:
                def local(fr, ev, ar):
                    if ev == 'return':
                        grabbed.update({k: fr.f_locals.get(k) for k in ('c2', 'c1', 'c0')})
                    return local
                return local
            return None
        rec = []

        def rec_sqrt(x):
            if x is NAN:
                return NAN
            r = lift(x).sqrt()
            rec.append((lift(x).e, r.e))
            return r
        grabbed['sqrt'] = rec
        try:
            with patched(P, isnan=lambda x: x is NAN, sqrt=rec_sqrt):
                sys.settrace(tracer)
                try:
                    s = seg.length(t0, t1)
                finally:
                    sys.settrace(None)
                s00 = seg.length(t0, t0)
        except ZeroDivisionError:
            raise Abort()
        finally:
            del SR.log
        return ps, t0, t1, s, s00, grabbed

    for ctx, (kind, val) in explore(run, maxpaths=200, logic=None):
        if kind == 'abort':
            continue
        R.path(ctx)
        if kind != 'ok':
            R.unexpected(ctx, 'unexpected %s %r' % (kind, val))
            continue
        ps, t0, t1, s, s00, g = val
        if s is NAN or s00 is NAN:
            continue

        def cex(m):
            pts = [mcval(m, p) for p in ps]
            return {'cls': 'QuadraticBezier.length closed form', 'inputs': {'ps': str(pts)},
                    'script': REPLAY_QLEN % (pts, 0.15, 0.8)}
        if not all(isinstance(g.get(k), SR) for k in ('c2', 'c1', 'c0')):
            # |a| < 1e-12 branch: s = |b| (t1 - t0); exact when a == 0
            a_ = ps[0] - 2 * ps[1] + ps[2]
            b_ = (ps[1] - ps[0]) * 2
            R.ob('quad.linear-branch', ctx, req(s, abs(b_) * (t1 - t0)), extra=[ceq(a_, 0)], cex=cex, timeout_ms=60000)
            continue
        # (i) the quadratic under the root is the squared speed -- re-derived for fully general control points
        t = symr('tt')
        gps = [symc('g%d' % i) for i in range(3)]
        ga = gps[0] - 2 * gps[1] + gps[2]
        gb = 2 * (gps[1] - gps[0])
        gsub = []
        a_loc, b_loc = ps[0] - 2 * ps[1] + ps[2], 2 * (ps[1] - ps[0])
        d1 = deriv_oracle(ps, t, 1)

        class NoPC:
            pc = []
        R.ob('quad.c2t^2+c1t+c0=speed^2', NoPC, req(g['c2'] * t * t + g['c1'] * t + g['c0'], d1.real * d1.real + d1.imag * d1.imag),
             cex=cex, timeout_ms=60000)
        # (ii) antiderivative algebra with c2, c1, c0 abstracted to free reals (sound: holds for all => holds for the instances)
        C2, C1, C0 = z3.Real('C2'), z3.Real('C1'), z3.Real('C0')
        sub = [(g['c2'].e, C2), (g['c1'].e, C1), (g['c0'].e, C0)]
        sa = z3.substitute(lift(s).e, *sub)
        hyps = [C2 > 0]
        atoms = []
        seen_atoms = set()
        for rad, q in g['sqrt']:
            if q.get_id() in seen_atoms or not z3.is_const(q) or z3.is_rational_value(q):
                continue
            seen_atoms.add(q.get_id())
            rad2 = z3.substitute(rad, *sub)
            atoms.append((rad2, q))
            hyps += [q >= 0, q * q == rad2]

        class FakeCtx:
            sqrt_memo = {i: (r_, q_) for i, (r_, q_) in enumerate(atoms)}
        try:
            ds = D(sa, t1.e, FakeCtx)
        except NotImplementedError as e:
            R.error('differentiator: %s' % e)
            continue
        speed2 = C2 * t1.e * t1.e + C1 * t1.e + C0
        # the non-zero denominators the run branched on, in abstracted form
        # (the substituted path condition is not needed: denominators are asserted non-zero below)
        q1 = None
        for rad2, q in atoms:
            if z3.eq(z3.simplify(rad2 - speed2), z3.RealVal(0)):
                q1 = q
        sol_claim = (ds == q1) if q1 is not None else z3.And(ds >= 0, ds * ds == speed2)
        # keep only the atom relations and sign facts about atoms / C2 (what the algebra needs)
        hyps = [h for h in hyps if 'If(' not in str(h)] + [q_ > 0 for _, q_ in atoms]
        # name beta = c1/(2 c2) and gamma: fewer nested divisions for nlsat
        Bv, Gv = z3.Real('beta'), z3.Real('gamma')
        beta_t = C1 / (C2 * 2)
        gamma_t = C0 / C2 - 1 * beta_t * beta_t
        ds = z3.substitute(ds, (gamma_t, Gv))
        ds = z3.substitute(ds, (beta_t, Bv))
        hyps = [z3.substitute(z3.substitute(h, (gamma_t, Gv)), (beta_t, Bv)) for h in hyps]
        defs = [Bv * (C2 * 2) == C1, Gv * C2 == C0 - Bv * Bv * C2]
        hyps += defs
        # lemma (completing the square), proved by the solver first, then offered as a hypothesis
        tq = z3.Real('tq')
        lemma = lambda tv: C2 * tv * tv + C1 * tv + C0 == C2 * ((tv + Bv) * (tv + Bv) + Gv)
        from ..symx import solve as _solve2
        rl, dtl, _m = _solve2(defs + [C2 > 0, z3.Not(lemma(tq))], 30000)
        R.solver_time += dtl
        if rl == 'unsat':
            hyps += [lemma(t1.e), lemma(t0.e)]
        ds = z3.simplify(ds)
        R.obligations += 1
        from ..symx import solve
        import os
        if os.environ.get('C06_DUMP'):
            sd = z3.Solver(); sd.add(*(hyps + [speed2 > 0, z3.Not(sol_claim)])); open('/tmp/c06_claim.smt2', 'w').write(sd.to_smt2())
        if os.environ.get('C06_DUMP'):
            open('/tmp/c06_claim.txt', 'w').write('HYPS\n' + '\n'.join(str(h) for h in hyps) + '\nDS\n' + str(ds) + '\nQ1 ' + str(q1) + '\nS\n' + str(sa))
        r = 'unknown'
        if q1 is not None:
            # first through an ideal-membership certificate over the atom relations (vf/cert.py), then as a plain query
            from .. import cert

            # every divisor of ds is a divisor of s (the run forked on it: NaN route otherwise), a sqrt atom (> 0 above) or the
            # argument of a ln (the run checked > 0), or a product of those: non-zero on this path -- the bound 'denominators non-zero'
            divs = []

            def walk_div(t_, seen=set()):
                if t_.get_id() in seen:
                    return
                seen.add(t_.get_id())
                if z3.is_app(t_) and t_.decl().kind() == z3.Z3_OP_DIV and not z3.is_rational_value(t_.arg(1)):
                    divs.append(t_.arg(1) != 0)
                for c_ in t_.children():
                    walk_div(c_, seen)
            walk_div(ds)

            class HypCtx:
                pc = hyps + [speed2 > 0] + divs
            r, dt, info = cert.prove_eq_mod(HypCtx, ds, q1, (), 60000)
            R.solver_time += dt
            if os.environ.get('C06_DUMP'):
                print('certificate:', r, info)
        if r != 'unsat':
            r, dt, m = solve(hyps + [speed2 > 0, z3.Not(sol_claim)], 120000)
            R.solver_time += dt
        if r == 'unsat':
            R.discharged += 1
        elif r == 'unknown':
            R.inconclusive.append('quad.ds/dt1=speed (abstracted c2,c1,c0)')
            # undecided: probe the real closed form on fixed generic control points (confirms a wrong formula, proves nothing)
            for pts_ in ([0j, 3 + 4j, 7 - 2j], [1 + 1j, -2 + 5j, 4 + 0.5j], [0j, 1 + 0j, 1 + 1j]):
                if R.probe('quad.ds/dt1=speed', {'cls': 'QuadraticBezier.length closed form', 'inputs': {'ps': str(pts_)}, 'script': REPLAY_QLEN % (pts_, 0.15, 0.8)}):
                    break
        else:
            R.obligations -= 1
            R.direct_cex('quad.ds/dt1=speed', cex(m) if False else {'cls': 'QuadraticBezier.length closed form', 'inputs': str(m)[:300],
                                                                    'script': REPLAY_QLEN % ([0j, 3 + 4j, 7 - 2j], 0.15, 0.8)})
        s0a = z3.substitute(lift(s00).e, *sub)
        # ln only ever enters through ln(1) = 0: show each ln argument is 1 here, then the rest must cancel
        lns = []

        def walk(t_, seen=set()):
            if t_.get_id() in seen:
                return
            seen.add(t_.get_id())
            if z3.is_app(t_) and t_.decl().name() == 'ln':
                lns.append(t_)
            for c_ in t_.children():
                walk(c_, seen)
        walk(s0a)
        args_one = z3.And(*[l_.arg(0) == 1 for l_ in lns]) if lns else z3.BoolVal(True)
        s0b = z3.substitute(s0a, *[(l_, z3.RealVal(0)) for l_ in lns]) if lns else s0a
        dens0 = []

        def walkd(t_, seen=set()):
            if t_.get_id() in seen:
                return
            seen.add(t_.get_id())
            if z3.is_app(t_) and t_.decl().kind() == z3.Z3_OP_DIV:
                dens0.append(t_.arg(1))
            for c_ in t_.children():
                walkd(c_, seen)
        walkd(s0a)
        R.obligations += 1
        r, dt, m = solve(hyps + [d_ != 0 for d_ in dens0] + [z3.Not(z3.And(args_one, s0b == 0))], 60000)
        R.solver_time += dt
        if r == 'unsat':
            R.discharged += 1
        elif r == 'unknown':
            R.inconclusive.append('quad.s(t0,t0)=0')
        else:
            R.obligations -= 1
            R.direct_cex('quad.s(t0,t0)=0', {'cls': 'QuadraticBezier.length closed form', 'inputs': str(m)[:300],
                                             'script': REPLAY_QLEN % ([0j, 3 + 4j, 7 - 2j], 0.4, 0.4)})
        R.sample({'branch': ''.join('TF'[not d_[0]] for d_ in ctx.decisions[:ctx.pos])})
        # the closed-form term has the same shape on every path of the generic branch and the algebraic
        # obligations are posed over abstract (c2,c1,c0): one path suffices
        R.incomplete_note('quad-generic: obligations discharged on the first generic-branch path only (term shape is path independent)')
        break


def fam_quad_collinear(R):
    """b = -m a (anti-parallel, fold-back at t* = m/2): NaN route + generic route"""
    import svgpathtools.path as P
    R.bound(a='|a| >= 0.1 (the |a| < 1e-12 approximation branch is outside the claim)', shape='start = 0 free direction a, control = -m a / 2, end = a - m a ... (collinear, anti-parallel, m >= 0)')
    R.stub('numpy scalar division by zero / log(0) -> NaN token', 'isnan -> token test')

    def run():
        a = symc('a')
        m_ = symr('m')
        p0 = symc('p0')
        t0, t1 = symr('t0'), symr('t1')
        cx = Ctx.cur
        cx.assume((a.real * a.real + a.imag * a.imag).e >= 0.01, m_.e >= 0, t0.e >= 0, t0.e <= t1.e, t1.e <= 1)
        # a = start - 2 control + end, b = 2 (control - start) = -m a
        control = p0 - a * m_ / 2
        end = a - p0 + 2 * control
        seg = P.QuadraticBezier(p0, control, end)
        SR.log = sr_log
        old_div = SR.__truediv__

        def div(s, o):
            if isinstance(o, SR):
                return np_div(s, o)
            return old_div(s, o)
        SR.__truediv__ = div
        try:
            with patched(P, isnan=lambda x: x is NAN):
                s = seg.length(t0, t1)
        finally:
            SR.__truediv__ = old_div
            del SR.log
        return a, m_, p0, (t0, t1), [p0, control, end], s

    for ctx, (kind, val) in explore(run, maxpaths=400, logic=None):
        R.path(ctx)
        if kind != 'ok':
            R.unexpected(ctx, 'unexpected %s %r' % (kind, val))
            continue
        a, m_, p0, (t0, t1), ps, s = val

        def cex(m):
            pts = [mcval(m, p) for p in ps]
            return {'cls': 'QuadraticBezier.length collinear fold-back fallback', 'inputs': {'ps': str(pts), 't0': mval(m, t0), 't1': mval(m, t1)},
                    'script': REPLAY_QLEN % (pts, mval(m, t0), mval(m, t1))}
        if s is NAN:
            R.ob('collinear.no-nan-result', ctx, z3.BoolVal(False), cex=cex)
            continue
        na = abs(a)
        ts = m_ / 2
        # oracle: |a| * integral_{t0}^{t1} |2t - m| dt
        F = lambda t: t * t - m_ * t           # antiderivative of (2t - m)
        want = z3.If(t1.e <= ts.e, (na * (F(t0) - F(t1))).e,
                     z3.If(t0.e >= ts.e, (na * (F(t1) - F(t0))).e, (na * ((F(t0) - F(ts)) + (F(t1) - F(ts)))).e))
        robust = [zabs(a.real.e) <= 5, zabs(a.imag.e) <= 5, m_.e <= 3, z3.IsInt(a.real.e), z3.IsInt(a.imag.e)]
        R.ob('collinear.length=integral', ctx, lift(s).e == want, cex=cex, robust=robust, timeout_ms=120000)
        if R.paths % 5 == 1:
            R.sample({'branch': ''.join('TF'[not d_[0]] for d_ in ctx.decisions[:ctx.pos])})


def fam_segment_length(R, min_depth):
    import svgpathtools.path as P
    R.bound(min_depth=min_depth, error='symbolic >= 0', recursion_depth='<= %d' % (min_depth + 1), interval='[0,1]')
    R.stub('curve.point -> uninterpreted')
    fx = z3.Function('cx', z3.RealSort(), z3.RealSort())
    fy = z3.Function('cy', z3.RealSort(), z3.RealSort())

    class Curve:
        def __init__(self):
            self.evald = []

        def point(self, t):
            t = lift(t)
            self.evald.append(t)
            return SC(SR(fx(t.e)), SR(fy(t.e)))

    def run():
        t0, t1, err = lift(0), lift(1), symr('err')
        cx = Ctx.cur
        cx.assume(err.e >= 0)
        c = Curve()
        sp, ep = c.point(t0), c.point(t1)
        c.evald = []
        # bound the recursion: beyond min_depth+1 levels the refinement condition is assumed false
        depth_cap = min_depth + 1
        orig = P.segment_length

        def capped(curve, start, end, start_point, end_point, error, min_depth_, depth):
            if depth > depth_cap:
                raise Abort()
            return orig(curve, start, end, start_point, end_point, error, min_depth_, depth)
        with patched(P, segment_length=capped):
            s = P.segment_length(c, t0, t1, sp, ep, err, min_depth, 0)
        return c, t0, t1, s

    for ctx, (kind, val) in explore(run, maxpaths=300, logic=None):
        if kind == 'abort':
            continue
        R.path(ctx)
        if kind != 'ok':
            R.unexpected(ctx, 'unexpected %s %r' % (kind, val))
            continue
        c, t0, t1, s = val
        # all evaluated parameters are dyadic points of [t0,t1]; the result must be the chord sum over them in order
        pts = [t0] + c.evald + [t1]
        # order them concretely by their dyadic coordinate: evaluate (t - t0)/(t1 - t0) under a model of pc
        from fractions import Fraction
        def key(t):
            v = z3.simplify(t.e)
            return Fraction(v.numerator_as_long(), v.denominator_as_long())
        order = sorted(pts, key=key)
        total = lift(0)
        for u, v in zip(order, order[1:]):
            total = total + abs(SC(SR(fx(v.e)), SR(fy(v.e))) - SC(SR(fx(u.e)), SR(fy(u.e))))
        dyadic = z3.And(*[z3.Or(*[(t - t0).e * (2 ** (min_depth + 2)) == k * (t1 - t0).e for k in range(2 ** (min_depth + 2) + 1)]) for t in c.evald])
        R.ob('segment_length.d%d.partition-is-dyadic' % min_depth, ctx, dyadic, timeout_ms=60000)
        R.ob('segment_length.d%d.result=chord-sum' % min_depth, ctx, req(s, total), timeout_ms=60000,
             cex=lambda m_: {'cls': 'segment_length is not the chord sum of its partition', 'inputs': str(m_)[:200], 'script': REPLAY_SEGLEN})
        R.ob('segment_length.d%d.refined-at-least-min_depth' % min_depth, ctx, z3.BoolVal(len(c.evald) >= 2 ** (min_depth + 1) - 1),
             cex=lambda m_: {'cls': 'segment_length stops refining before min_depth', 'inputs': {'evaluated_points': len(c.evald), 'min_depth': min_depth,
                                                                                              'chord': mval(m_, abs(SC(SR(fx(t1.e)), SR(fy(t1.e))) - SC(SR(fx(t0.e)), SR(fy(t0.e)))))},
                             'script': REPLAY_REFINE})
        if R.paths % 5 == 1:
            R.sample({'min_depth': min_depth, 'evaluated_points': len(c.evald)})


REPLAY_SEGLEN = '''
import svgpathtools.path as P
seg = CubicBezier(0j, 30+90j, 70-60j, 100+10j)
for md in (0, 1, 2, 3):
    got = P.segment_length(seg, 0.1, 0.9, seg.point(0.1), seg.point(0.9), 1e9, md, 0)
    n = 2 ** (md + 1)
    pts = [seg.point(0.1 + 0.8 * i / n) for i in range(n + 1)]
    want = sum(abs(pts[i + 1] - pts[i]) for i in range(n))
    if abs(got - want) > 1e-9 * want: REPRODUCED('segment_length(min_depth=%d, huge error) = %r, chord sum over %d pieces = %r' % (md, got, n, want))
'''


# a path on which fewer than 2^(min_depth+1)-1 points were evaluated: confirmed on the real function with curves whose chord
# says nothing about their length (coincident or nearly coincident end points, fold-backs), against a fine chord sum
REPLAY_REFINE = '''
import svgpathtools.path as P
curves = [CubicBezier(1+1j, 5+2j, 2+6j, 1+1j), CubicBezier(0j, 2+0j, 2+0j, 0j), QuadraticBezier(0j, 1+1j, 0j),
          CubicBezier(0j, 30+90j, 70-60j, 100+10j), CubicBezier(0j, 4+0j, -3+0j, 1e-9+0j), QuadraticBezier(1+1j, 3+1j, 1+1j)]
for seg in curves:
    for (a, b) in ((0, 1), (0.25, 0.75)):
        got = P.segment_length(seg, a, b, seg.point(a), seg.point(b), P.LENGTH_ERROR, P.LENGTH_MIN_DEPTH, 0)
        N = 1 << 14
        pts = [seg.point(a + (b - a) * i / N) for i in range(N + 1)]
        want = sum(abs(pts[i + 1] - pts[i]) for i in range(N))
        if abs(got - want) > 1e-4 * (1 + want):
            REPRODUCED('segment_length(%r, %r, %r) with the default error/min_depth = %r, chord sum over %d pieces = %r' % (seg, a, b, got, N, want))
'''


REPLAY_CLEN = REPLAY_ORACLE + """
import svgpathtools.path as P
P._quad_available = %r
ps = %r; t0 = %r; t1 = %r
seg = CubicBezier(*ps)
got = seg.length(t0, t1)
N = 1 << 14
pts = [bernF(ps, t0 + (t1 - t0) * i / N) for i in range(N + 1)]
chord = sum(abs(pts[i + 1] - pts[i]) for i in range(N))
if not (got == got) or abs(got - chord) > 1e-5 * (1 + chord):
    REPRODUCED('CubicBezier%%r.length(%%r,%%r) = %%r (scipy quadrature %%s), chord sum over %%d pieces = %%r' %% (tuple(ps), t0, t1, got, 'available' if P._quad_available else 'unavailable', N, chord))
"""

KLEN = z3.Function('Klen', z3.RealSort(), z3.RealSort(), z3.RealSort())


def fam_cubic_dispatch(R, quad_available, normalised):
    """CubicBezier.length(t0, t1): what is handed to scipy.integrate.quad / segment_length, and what is returned.
    Both integrators are replaced by the uninterpreted kernel Klen(a, b) whose contract is `the arc length of this curve
    between a and b` (d/db Klen = speed(b), d/da Klen = -speed(a), Klen(a, a) = 0).  Whatever term s the method returns must be
    an antiderivative of the speed: s(t0,t0) = 0 and ds/dt1 = |B'(t1)| -- for Klen(t0, t1) itself this is immediate, for any
    closed-form shortcut it is a real obligation."""
    import svgpathtools.path as P
    R.bound(quad_available=quad_available, control_points='start = 0, end = 1 (similarity normal form), controls symbolic' if normalised else 'symbolic',
            t0_t1='0 <= t0 < t1 <= 1 symbolic', error='symbolic > 0', min_depth='symbolic')
    R.stub('scipy.integrate.quad / path.segment_length -> uninterpreted Klen(a, b) with the arc-length contract')
    calls = []

    def quad_stub(f, a, b, epsabs=None, limit=None, **kw):
        calls.append(('quad', f, lift(a), lift(b), epsabs))
        return (SR(KLEN(lift(a).e, lift(b).e)), 0.0)

    def seglen_stub(curve, start, end, start_point, end_point, error=None, min_depth=None, depth=0):
        calls.append(('seglen', curve, lift(start), lift(end), start_point, end_point, error, min_depth, depth))
        return SR(KLEN(lift(start).e, lift(end).e))

    def run():
        del calls[:]
        cx = Ctx.cur
        if normalised:
            ps = [SC(0, 0), symc('p1'), symc('p2'), SC(1, 0)]
        else:
            ps = [symc('p%d' % i) for i in range(4)]
        t0, t1, tau = symr('t0'), symr('t1'), symr('tau')
        err, md = symr('error'), symr('min_depth')
        cx.assume(t0.e >= 0, t0.e < t1.e, t1.e <= 1, err.e > 0, md.e >= 0)
        seg = P.CubicBezier(*ps)
        with patched(P, quad=quad_stub, segment_length=seglen_stub, _quad_available=quad_available):
            s = seg.length(t0, t1, err, md)
            integrands = [(c[1](tau)) for c in calls if c[0] == 'quad']
        return seg, ps, t0, t1, tau, err, md, s, list(calls), integrands

    for ctx, (kind, val) in explore(run, maxpaths=200, logic=None):
        R.path(ctx)
        if kind != 'ok':
            R.unexpected(ctx, 'unexpected %s %r' % (kind, val))
            continue
        seg, ps, t0, t1, tau, err, md, s, cl, integrands = val
        Ctx.cur = ctx

        def cex(m):
            p0 = [mcval(m, p) for p in ps]
            return {'cls': 'CubicBezier.length is not the arc length (%s scipy)' % ('with' if quad_available else 'without'),
                    'inputs': {'ps': str(p0), 't0': mval(m, t0), 't1': mval(m, t1)}, 'script': REPLAY_CLEN % (quad_available, p0, mval(m, t0), mval(m, t1))}

        def speed_at(x):
            d = deriv_oracle(ps, SR(x), 1)
            return abs(d)
        # what the integrators are given
        for c in cl:
            if c[0] == 'quad':
                R.ob('quad.interval', ctx, z3.And(c[2].e == t0.e, c[3].e == t1.e), cex=cex)
            else:
                R.ob('segment_length.arguments', ctx, z3.And(z3.BoolVal(c[1] is seg), c[2].e == t0.e, c[3].e == t1.e, ceq(c[4], bern(ps, t0)), ceq(c[5], bern(ps, t1)),
                                                              z3.BoolVal(isinstance(c[8], int) and c[8] == 0)), cex=cex)
        for f_tau in integrands:
            want = speed_at(tau.e)
            R.ob('quad.integrand=speed', ctx, z3.And(sq(lift(f_tau)) == sq(want), lift(f_tau).e >= 0), cex=cex)
        # the returned term is an antiderivative of the speed
        s = lift(s)

        def dK(e, var, cx_, memo):
            a, b = e.children()
            return speed_at(b).e * D(b, var, cx_, memo) - speed_at(a).e * D(a, var, cx_, memo)
        D_HOOKS['Klen'] = dK
        ds = D(s.e, t1.e, ctx)
        sp1 = speed_at(t1.e)
        at0 = z3.substitute(s.e, (t1.e, t0.e))
        kzero = [KLEN(t0.e, t0.e) == 0]
        # sqrt atoms of s are differentiable only where positive (the non-differentiable points are excluded: a null set)
        pos = [q > 0 for kk, (rad, q) in ctx.sqrt_memo.items() if isinstance(kk, int) and z3.is_const(q)]
        gap = ds - sp1.e
        # violation with margin, looked for among collinear control polygons on the real axis (fold-backs included): a 1-D problem
        robust = [zabs(p.real.e) <= 3 for p in ps] + [p.imag.e == 0 for p in ps] + [t1.e - t0.e >= 0.2, z3.Or(gap >= 0.5, gap <= -0.5)] + pos
        R.ob('result.d/dt1=speed', ctx, ds == sp1.e, extra=pos, cex=cex, robust=robust, timeout_ms=60000)
        if z3.eq(z3.simplify(s.e), z3.simplify(KLEN(t0.e, t1.e))):
            R.ob('result.at-t1=t0', ctx, z3.BoolVal(True))
        else:
            # s(t0, t0) = 0: the sqrt atoms of s are re-derived at t1 := t0
            R.ob('result.at-t1=t0', ctx, at0 == 0, extra=kzero + [z3.substitute(c_, (t1.e, t0.e)) for c_ in ctx.pc if not z3.eq(c_, t0.e < t1.e)], cex=cex, timeout_ms=30000)
        R.sample({'quad_available': quad_available, 'calls': [c[0] for c in cl]})


REPLAY_ALEN = """
import math
import svgpathtools.path as P
P._quad_available = %r
t0, t1 = %r, %r
arcs = [Arc(0j, 2+1j, 0, 0, 1, 3+1j), Arc(0j, 2+1j, 30, 1, 0, 3+1j), Arc(1+1j, 5+1j, -75, 1, 1, 2+2j), Arc(0j, 1+1j, 0, 1, 1, 1+1j), Arc(0j, 3+0.5j, 110, 0, 0, -2+4j)]
for arc in arcs:
    for (a, b) in ((t0, t1), (0, 1), (0.25, 0.75)):
        got = arc.length(a, b)
        N = 1 << 14
        pts = [arc.point(a + (b - a) * i / N) for i in range(N + 1)]
        chord = sum(abs(pts[i + 1] - pts[i]) for i in range(N))
        if not (got == got) or abs(got - chord) > 1e-5 * (1 + chord):
            REPRODUCED('%%r.length(%%r,%%r) = %%r (scipy quadrature %%s), chord sum over %%d pieces = %%r' %% (arc, a, b, got, 'available' if P._quad_available else 'unavailable', N, chord))
"""


def fam_arc_dispatch(R, quad_available, rot='p37'):
    """Arc.length(t0, t1): the integrand handed to quad is |derivative| (Arc.derivative itself is C04's), the interval is [t0, t1],
    the fallback gets point(t0), point(t1), and the value returned is the integrator's."""
    import svgpathtools.path as P
    from . import c04
    from ..ang import Ang
    c04.install(P)
    R.bound(quad_available=quad_available, rotation=rot, t0_t1='0 <= t0 < t1 <= 1 symbolic')
    R.stub('scipy.integrate.quad / path.segment_length -> uninterpreted Klen(a, b)', 'Arc._parameterize -> free theta/delta/centre (as in C04)')
    calls = []

    def quad_stub(f, a, b, epsabs=None, limit=None, **kw):
        calls.append(('quad', f, lift(a), lift(b), epsabs))
        return (SR(KLEN(lift(a).e, lift(b).e)), 0.0)

    def seglen_stub(curve, start, end, start_point, end_point, error=None, min_depth=None, depth=0):
        calls.append(('seglen', curve, lift(start), lift(end), start_point, end_point, error, min_depth, depth))
        return SR(KLEN(lift(start).e, lift(end).e))
    orig = P.Arc._parameterize

    def fake(self):
        cx = Ctx.cur
        th, dl = symr('theta'), symr('delta')
        c1, s1, c2, s2 = cx.fresh('ct'), cx.fresh('st'), cx.fresh('cd'), cx.fresh('sd')
        cx.assume(c1 * c1 + s1 * s1 == 1, c2 * c2 + s2 * s2 == 1)
        self.theta = Ang(th.e, c1, s1, 'deg')
        self.delta = Ang(dl.e, c2, s2, 'deg')
        self.center = symc('ctr')

    def run():
        del calls[:]
        P.Arc._parameterize = fake
        try:
            deg, c, s = c04.ROTATIONS[rot]
            rx, ry = symr('rx'), symr('ry')
            cx = Ctx.cur
            cx.assume(rx.e > 0, ry.e > 0)
            st_, en_ = symc('st'), symc('en')
            cx.assume(z3.Not(ceq(st_, en_)))
            arc = P.Arc(st_, SC(rx, ry), c04.RotDeg(deg, c, s), True, True, en_)
            t0, t1, tau = symr('t0'), symr('t1'), symr('tau')
            err, md = symr('error'), symr('min_depth')
            cx.assume(t0.e >= 0, t0.e < t1.e, t1.e <= 1, err.e > 0, md.e >= 0)
            with patched(P, quad=quad_stub, segment_length=seglen_stub, _quad_available=quad_available):
                s_ = arc.length(t0, t1, err, md)
                integrands = [(c_[1](tau), abs(arc.derivative(tau))) for c_ in calls if c_[0] == 'quad']
                ends = (arc.point(t0), arc.point(t1))
            return arc, t0, t1, s_, list(calls), integrands, ends
        finally:
            P.Arc._parameterize = orig

    for ctx, (kind, val) in explore(run, maxpaths=200):
        R.path(ctx)
        if kind != 'ok':
            R.unexpected(ctx, 'unexpected %s %r' % (kind, val))
            continue
        arc, t0, t1, s_, cl, integrands, ends = val

        def cex(m):
            return {'cls': 'Arc.length is not what the integrator returns for [t0,t1] (%s scipy)' % ('with' if quad_available else 'without'),
                    'inputs': {'t0': mval(m, t0), 't1': mval(m, t1)}, 'script': REPLAY_ALEN % (quad_available, mval(m, t0), mval(m, t1))}
        for c_ in cl:
            if c_[0] == 'quad':
                R.ob('quad.interval', ctx, z3.And(c_[2].e == t0.e, c_[3].e == t1.e), cex=cex)
            else:
                R.ob('segment_length.arguments', ctx, z3.And(z3.BoolVal(c_[1] is arc), c_[2].e == t0.e, c_[3].e == t1.e, ceq(c_[4], ends[0]), ceq(c_[5], ends[1]),
                                                              z3.BoolVal(isinstance(c_[8], int) and c_[8] == 0)), cex=cex)
        for got, want in integrands:
            R.ob('quad.integrand=|derivative|', ctx, z3.And(sq(lift(got)) == sq(lift(want)), lift(got).e >= 0), cex=cex)
        R.ob('result=integrator(t0,t1)', ctx, lift(s_).e == KLEN(t0.e, t1.e), cex=cex)
        R.ob('one-integrator-call', ctx, z3.BoolVal(len(cl) == 1), cex=cex)
        R.sample({'quad_available': quad_available, 'calls': [c_[0] for c_ in cl]})


def fam_path_sum(R, n):
    from . import c05
    c05.fam_length_T0T1(R, n)


def families(tier):
    M = 'vf.props.c06'
    fams = [('line', M, 'fam_line', {}), ('quad-generic', M, 'fam_quad_generic', {}), ('quad-collinear', M, 'fam_quad_collinear', {})]
    for d in ((0, 1) if tier == 'quick' else (0, 1, 2)):
        fams.append(('segment_length-d%d' % d, M, 'fam_segment_length', {'min_depth': d}))
    for n in (1, 2, 3):
        fams.append(('path-sum-n%d' % n, M, 'fam_path_sum', {'n': n}))
    for qa in (True, False):
        fams.append(('arc-dispatch-%s' % ('quad' if qa else 'noscipy'), M, 'fam_arc_dispatch', {'quad_available': qa}))
        for nrm in (True, False):
            fams.append(('cubic-dispatch-%s-%s' % ('quad' if qa else 'noscipy', 'normal' if nrm else 'free'), M, 'fam_cubic_dispatch', {'quad_available': qa, 'normalised': nrm}))
    # length() after an earlier length(error=, min_depth=) call on the same object (the cache must not serve a coarser value):
    # the segment-cache families of C16, no-scipy and scipy configurations
    for deg in (3,):      # only CubicBezier.length keeps a cache
        for qa in (False, True):
            fams.append(('after-coarse-call-deg%d-%s' % (deg, 'quad' if qa else 'noscipy'), 'vf.props.c16', 'fam_segment_cache', {'deg': deg, 'quad_available': qa}))
    return fams
