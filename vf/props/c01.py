"""C01 -- Path.d() parses back to the same path under every option."""
import itertools

import z3

from ..symx import (SR, SC, explore, symc, symr, ceq, req, mval, mcval, Ctx, TOK, lift)
from ..stubs import patched, float_stub, NPProxy

META = {
    'explanation': (
        'The real Path.d runs on a Path of n symbolic segments (every mix of Line/Quadratic/Cubic/Arc) for each of the 8 '
        'option combinations; every decision in d() (M on discontinuity, S/T via is_smooth_from, Z when closed) forks on the '
        'coincidence pattern of the symbolic end/control points.  Numbers are printed as unique placeholder literals, the real '
        'regex tokenizer and the real _parse_path read the string back (module-level float() maps a placeholder to its term). '
        'z3 (QF_LRA) then decides: same number of segments, same classes in order, same arc flags, equal defining points, for '
        'all coordinates following that pattern.  Absolute form additionally: the parsed term is syntactically the printed term '
        '(no arithmetic between format and float => exact for doubles by float(repr(x))==x).'),
    'outside': ['rounding of relative coordinates (reals)', 'n larger than the bound',
                'number spellings other than repr (lexer: C02)',
                'Arc._parameterize is stubbed out here (d() only reads radius/rotation/flags/end; radius auto-scaling is C04)'],
    'assumptions': ['float(repr(x)) == x for finite doubles (CPython)', 'no zero-length Line, arc radii positive, arc start != end'],
}

KINDS = 'LQCA'


def mkseg(kind, i, start, flags=None):
    from svgpathtools.path import Line, QuadraticBezier, CubicBezier, Arc
    pts = [symc('s%d_%d' % (i, j)) for j in range(4)]
    if start is not None:
        pts[0] = start
    if kind == 'L':
        return Line(pts[0], pts[3])
    if kind == 'Q':
        return QuadraticBezier(pts[0], pts[1], pts[3])
    if kind == 'C':
        return CubicBezier(pts[0], pts[1], pts[2], pts[3])
    rx, ry, rot = symr('s%d_rx' % i), symr('s%d_ry' % i), symr('s%d_rot' % i)
    Ctx.cur.assume(rx.e > 0, ry.e > 0, z3.Not(ceq(pts[0], pts[3])))
    la, sw = flags if flags else (False, True)
    return Arc(pts[0], SC(rx, ry), rot, la, sw, pts[3])


def seg_fields(s):
    from svgpathtools.path import Arc
    if isinstance(s, Arc):
        return [s.start, s.radius, s.rotation, s.end]
    return list(s.bpoints())


def segeq(a, b):
    from svgpathtools.path import Arc
    if type(a) is not type(b):
        return z3.BoolVal(False)
    if isinstance(a, Arc) and (a.large_arc != b.large_arc or a.sweep != b.sweep):
        return z3.BoolVal(False)
    return z3.And(*[ceq(x, y) for x, y in zip(seg_fields(a), seg_fields(b))])


def atomic(seg):
    """every defining coordinate of the parsed segment is an input variable
    or a literal: nothing was computed between format() and float()."""
    for x in seg_fields(seg):
        for u in (lift(x.real), lift(x.imag)):
            e = z3.simplify(u.e)
            if not (z3.is_rational_value(e) or (z3.is_const(e) and e.decl().kind() == z3.Z3_OP_UNINTERPRETED)):
                return False
    return True


def concretize(m, segs):
    """python source of the concrete segments under model m"""
    from svgpathtools.path import Line, QuadraticBezier, CubicBezier, Arc
    out = []
    for s in segs:
        if isinstance(s, Arc):
            out.append('Arc(%r, %r, %r, %r, %r, %r)' % (mcval(m, s.start), mcval(m, s.radius), mval(m, s.rotation),
                                                      s.large_arc, s.sweep, mcval(m, s.end)))
        else:
            out.append('%s(%s)' % (type(s).__name__, ', '.join(repr(mcval(m, p)) for p in s.bpoints())))
    return 'Path(' + ', '.join(out) + ')'


SCRIPT = '''
p = %s
opts = dict(useSandT=%r, use_closed_attrib=%r, rel=%r)
d = p.d(**opts)
try:
    q = parse_path(d)
except Exception as e:
    REPRODUCED('d(%%r) = %%r does not parse: %%r' %% (opts, d, e))
def same(a, b):
    if type(a) is not type(b): return False
    if isinstance(a, Arc):
        return (a.large_arc, a.sweep) == (b.large_arc, b.sweep) and close(a.start, b.start) and close(a.end, b.end) \\
            and close(a.radius, b.radius, rel=1e-9) and close(a.rotation, b.rotation)
    return all(close(x, y) for x, y in zip(a.bpoints(), b.bpoints()))
if len(p) != len(q) or not all(same(a, b) for a, b in zip(p, q)):
    REPRODUCED('d(%%r) = %%r parses to\\n  %%r\\ninstead of\\n  %%r' %% (opts, d, q, p))
'''


def all_int(segs, lo=-40, hi=40):
    """robustness constraints: integer coordinates (survive float rounding)"""
    from svgpathtools.path import Arc
    cs = []
    seen = set()
    for s in segs:
        for f in seg_fields(s):
            for comp in (lift(f.real), lift(f.imag)):
                e = comp.e
                if z3.is_const(e) and e.decl().kind() == z3.Z3_OP_UNINTERPRETED and e.get_id() not in seen:
                    seen.add(e.get_id())
                    cs += [z3.IsInt(e), e >= lo, e <= hi]
    return cs


def fam_roundtrip(R, n, first, arcs=True):
    import svgpathtools.path as P
    from svgpathtools.path import Path, Arc, Line
    P.float = float_stub
    P.np = NPProxy()
    R.stub('path.float -> placeholder-token map', 'Arc._parameterize -> no-op (C01 only)')
    R.bound(n=n, first_kind=first, options='all 8', kinds=KINDS)
    Arc._parameterize = lambda self: None
    alphabet = KINDS if arcs else 'LQC'
    for rest in itertools.product(alphabet, repeat=n - 1):
        kinds = first + ''.join(rest)
        for opts in itertools.product([False, True], repeat=3):
            def run():
                TOK.reset()
                segs = [mkseg(k, i, None, flags=((i % 2 == 0), (i % 3 != 0))) for i, k in enumerate(kinds)]
                c = Ctx.cur
                for s in segs:
                    if isinstance(s, Line):
                        c.assume(z3.Not(ceq(s.start, s.end)))
                p = Path(*segs)
                d = p.d(useSandT=opts[0], use_closed_attrib=opts[1], rel=opts[2])
                try:
                    q = Path(d)
                except Exception as e:
                    q = e
                return p, d, q

            for ctx, (kind, val) in explore(run, maxpaths=20000, logic='QF_NRA'):
                R.path(ctx)
                if kind != 'ok':
                    R.error('%s %s: unexpected %s %r' % (kinds, opts, kind, val))
                    continue
                p, d, q = val

                def cex(m, p=p):
                    return {'cls': cls_of(p, q, opts), 'inputs': {'path': concretize(m, p), 'opts': opts, 'd': d[:200]},
                            'script': SCRIPT % (concretize(m, p), opts[0], opts[1], opts[2])}
                name = '%s.%s%s%s' % (kinds, *['ft'[o] for o in opts])
                if isinstance(q, Exception):
                    R.ob(name + '.parses', ctx, z3.BoolVal(False), cex=cex, robust=all_int(p))
                    continue
                if len(p) != len(q):
                    claim = z3.BoolVal(False)
                else:
                    claim = z3.And(*[segeq(a, b) for a, b in zip(p, q)])
                r = R.ob(name, ctx, claim, cex=cex, robust=all_int(p), timeout_ms=30000)
                if r == 'unsat' and not opts[2] and not opts[0]:
                    # exactness of the absolute form without S/T: every parsed
                    # coordinate is an input double itself (no arithmetic), and
                    # the LRA verdict above says it is the right one.
                    R.obligations += 1
                    if all(atomic(b) for b in q):
                        R.discharged += 1
                    else:
                        R.inconclusive.append(name + '.abs-exactness')
                if R.paths % 200 == 1:
                    R.sample({'kinds': kinds, 'opts': dict(useSandT=opts[0], use_closed_attrib=opts[1], rel=opts[2]),
                              'd': d[:160]})


def cls_of(p, q, opts):
    from svgpathtools.path import Line
    if isinstance(q, Exception):
        return 'd-string does not parse (%s)' % type(q).__name__
    if len(p) != len(q):
        if opts[1] and len(q) == len(p) - 1:
            return 'use_closed_attrib: closing segment dropped'
        if opts[1] and len(q) == len(p) and False:
            return ''
        return 'segment count changes (%+d)' % (len(q) - len(p))
    for a, b in zip(p, q):
        if type(a) is not type(b):
            if opts[1] and b is q[-1] and isinstance(b, Line):
                return 'use_closed_attrib: closing curve replaced by a line'
            return 'segment type changes'
    if opts[0]:
        return 'S/T shorthand reconstructs a different control point'
    return 'defining points differ'


def families(tier):
    M = 'vf.props.c01'
    fams = []
    ns = (1, 2, 3) if tier == 'quick' else (1, 2, 3, 4)
    for n in ns:
        for k in KINDS:
            fams.append(('n%d-%s' % (n, k), M, 'fam_roundtrip', {'n': n, 'first': k}))
    return fams
