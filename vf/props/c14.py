"""C14 -- area() is the signed enclosed area; enclosure tests."""
import itertools

import numpy as np
import z3

from ..symx import (SR, SC, SB, explore, symc, symr, ceq, req, mval, mcval, Ctx, lift, zabs, Abort, tosc, zbool)
from ..stubs import NPProxy, patched, sym_min, sym_max
from .c03 import power_coeffs

META = {
    'explanation': (
        'Path.area (area_without_arcs: real numpy.poly1d multiplication, differentiation and integration on symbolic coefficients) is '
        'executed on closed paths of 1..3 Line/Quadratic/Cubic segments with symbolic control points (closure by sharing vertices) and '
        'z3 shows it equals the independent Green integral sum_ij c_i j d_j /(i+j) of the power-basis coefficients, is positive for a '
        'counter-clockwise triangle / convex quadrilateral, changes sign under reversed(), is invariant under translated(), scales by '
        'sx*sy under scaled() and by det under transform().  path_encloses_pt runs (through Path.intersect / Line.intersect) on a '
        'symbolic triangle, a symbolic query point and outside point in general position and is compared with the orientation-test '
        'point-in-triangle oracle.'),
    'outside': ['arcs (chord approximation via np.linspace / ceil: numeric)', 'polygons with more than 4 edges; Bezier boundaries for enclosure',
                'is_contained_by: its composition only (crossing test, boxes and enclosure test are stubs with their contracts)', 'rounding'],
    'assumptions': ['general position for enclosure: probe not through a vertex, not (nearly) parallel to an edge'],
}

KINDS = {'L': 1, 'Q': 2, 'C': 3}


def mkclosed(kinds, tag='v'):
    """closed continuous path with shared symbolic vertices"""
    from svgpathtools.path import Line, QuadraticBezier, CubicBezier, Path
    n = len(kinds)
    V = [symc('%s%d' % (tag, i)) for i in range(n)]
    segs = []
    for i, k in enumerate(kinds):
        a, b = V[i], V[(i + 1) % n]
        if k == 'L':
            segs.append(Line(a, b))
        elif k == 'Q':
            segs.append(QuadraticBezier(a, symc('%sq%d' % (tag, i)), b))
        else:
            segs.append(CubicBezier(a, symc('%sc%da' % (tag, i)), symc('%sc%db' % (tag, i)), b))
    return Path(*segs), V


def green(bpoints):
    """independent oracle: integral_0^1 x(t) y'(t) dt from power-basis coefficients"""
    c = power_coeffs(list(bpoints))
    tot = lift(0)
    for i, ci in enumerate(c):
        for j, dj in enumerate(c):
            if j == 0:
                continue
            tot = tot + ci.real * dj.imag * j / (i + j)
    return tot


def cross(o, a, b):
    return (a.real - o.real) * (b.imag - o.imag) - (a.imag - o.imag) * (b.real - o.real)


def concretize(m, path):
    out = []
    for s in path:
        out.append('%s(%s)' % (type(s).__name__, ', '.join(repr(mcval(m, p)) for p in s.bpoints())))
    return 'Path(' + ', '.join(out) + ')'


REPLAY_AREA = '''
from fractions import Fraction as F
from math import comb
p = %s
def pc(ps):
    n = len(ps) - 1; out = []
    for j in range(n + 1):
        cx = F(0); cy = F(0)
        for i in range(j + 1):
            w = comb(n, j) * comb(j, i) * (-1) ** (i + j)
            cx += w * F(ps[i].real); cy += w * F(ps[i].imag)
        out.append((cx, cy))
    return out
def green(path):
    tot = F(0)
    for s in path:
        c = pc(list(s.bpoints()))
        for i, ci in enumerate(c):
            for j, dj in enumerate(c):
                if j: tot += ci[0] * dj[1] * j / (i + j)
    return float(tot)
sx, sy, z0 = %r, %r, %r
M = np.array(%r, dtype=float)
a = p.area(); want = green(p)
tol = 1e-7 * (1 + abs(want))
if abs(a - want) > tol: REPRODUCED('area() = %%r, Green integral = %%r for %%r' %% (a, want, p))
if abs(p.reversed().area() + want) > tol: REPRODUCED('reversed().area() = %%r, expected %%r' %% (p.reversed().area(), -want))
if abs(p.translated(z0).area() - want) > 1e-6 * (1 + abs(want) + abs(z0) ** 2): REPRODUCED('translated area changed: %%r vs %%r' %% (p.translated(z0).area(), want))
if abs(p.scaled(sx, sy).area() - sx * sy * want) > 1e-6 * (1 + abs(sx * sy * want)): REPRODUCED('scaled(%%r,%%r).area() = %%r, expected %%r' %% (sx, sy, p.scaled(sx, sy).area(), sx * sy * want))
det = M[0, 0] * M[1, 1] - M[0, 1] * M[1, 0]
if abs(transform(p, M).area() - det * want) > 1e-6 * (1 + abs(det * want)): REPRODUCED('transform area %%r, expected det*area = %%r' %% (transform(p, M).area(), det * want))
'''


def fam_area(R, kinds):
    import svgpathtools.path as P
    from svgpathtools.path import transform
    from .. import stubs
    P.np = NPProxy()
    stubs.NO_TRIM[0] = True
    R.bound(kinds=kinds, generic='first vertex and its images are not the origin (Path.start falsy-refetch fork avoided)')
    R.stub('numpy.trim_zeros keeps symbolic leading coefficients (value-preserving for +,*,deriv,integ,eval)')
    OPS = ('area=green', 'reversed', 'translated', 'scaled', 'transform', 'ccw')

    def mk_run(op):
        def run():
            p, V = mkclosed(kinds)
            c = Ctx.cur
            c.assume(z3.Not(ceq(V[0], 0)))
            a = p.area()
            extra = {}
            if op == 'area=green':
                return p, V, extra, a, sum((green(s.bpoints()) for s in p), lift(0))
            if op == 'reversed':
                return p, V, extra, p.reversed().area(), -a
            if op == 'translated':
                z0 = symc('z0')
                c.assume(z3.Not(ceq(V[0] + z0, 0)))
                extra['z0'] = z0
                return p, V, extra, p.translated(z0).area(), a
            if op == 'scaled':
                sx, sy = symr('sx'), symr('sy')
                c.assume(sx.e != 0, sy.e != 0, z3.Not(ceq(SC(sx * V[0].real, sy * V[0].imag), 0)))
                extra['sx'], extra['sy'] = sx, sy
                return p, V, extra, p.scaled(sx, sy).area(), a * sx * sy
            if op == 'transform':
                M = np.empty((3, 3), dtype=object)
                for i in range(2):
                    for j in range(3):
                        M[i, j] = symr('m%d%d' % (i, j))
                M[2, 0], M[2, 1], M[2, 2] = 0.0, 0.0, 1.0
                img = SC(M[0, 0] * V[0].real + M[0, 1] * V[0].imag + M[0, 2], M[1, 0] * V[0].real + M[1, 1] * V[0].imag + M[1, 2])
                c.assume(z3.Not(ceq(img, 0)))
                extra['M'] = M
                return p, V, extra, transform(p, M).area(), a * (M[0, 0] * M[1, 1] - M[0, 1] * M[1, 0])
            if op == 'ccw':
                return p, V, extra, a, None
        return run

    for op in OPS:
        if op == 'ccw' and kinds not in ('LLL', 'LLLL'):
            continue
        for ctx, (kind, val) in explore(mk_run(op), maxpaths=600):
            R.path(ctx)
            if kind != 'ok':
                R.unexpected(ctx, '%s %s: unexpected %s %r' % (kinds, op, kind, val))
                continue
            p, V, extra, got, want = val

            def cex(m):
                M = extra.get('M')
                Mv = [[mval(m, lift(M[i, j])) for j in range(3)] for i in range(3)] if M is not None else [[2, 1, 3], [0, 3, -1], [0, 0, 1]]
                sxv = mval(m, extra['sx']) if 'sx' in extra else 2.0
                syv = mval(m, extra['sy']) if 'sy' in extra else 3.0
                z0v = mcval(m, extra['z0']) if 'z0' in extra else 3 - 2j
                return {'cls': 'area (%s) %s' % (kinds, op), 'inputs': {'path': concretize(m, p)},
                        'script': REPLAY_AREA % (concretize(m, p), sxv, syv, z0v, Mv)}
            if op == 'ccw':
                n = len(V)
                ccw = z3.And(*[cross(V[i], V[(i + 1) % n], V[(i + 2) % n]).e > 0 for i in range(n)])
                R.ob('%s.ccw-positive' % kinds, ctx, lift(got).e > 0, extra=[ccw], cex=cex, timeout_ms=60000)
            else:
                R.ob('%s.%s' % (kinds, op), ctx, req(got, want), cex=cex, timeout_ms=60000)
        R.sample({'kinds': kinds, 'op': op})


REPLAY_ENC = '''
tri = %r; pt = %r; opt = %r
p = Path(*[Line(tri[i], tri[(i + 1) %% 3]) for i in range(3)])
def cr(o, a, b): return (a.real - o.real) * (b.imag - o.imag) - (a.imag - o.imag) * (b.real - o.real)
s = [cr(tri[i], tri[(i + 1) %% 3], pt) for i in range(3)]
inside = all(x > 0 for x in s) or all(x < 0 for x in s)
got = path_encloses_pt(pt, opt, p)
if got != inside: REPRODUCED('path_encloses_pt(%%r, %%r, triangle %%r) = %%r, orientation test says %%r' %% (pt, opt, tri, got, inside))
'''


TRIANGLES = {'ccw-acute': [0j, 4 + 0j, 1 + 3j], 'cw-obtuse': [0j, 1 + 5j, 6 + 1j], 'ccw-thin': [-3 - 1j, 5 + 0j, 4 + 1j]}


def fam_encloses(R, tri):
    import svgpathtools.path as P
    from svgpathtools.path import Line, Path, path_encloses_pt
    P.np = NPProxy()
    R.bound(polygon='concrete triangle %s = %r; query point and outside point symbolic' % (tri, TRIANGLES[tri]),
            general_position='|cross| >= 0.05 margins, coordinates in [-10,10]')
    R.stub('Line.length -> positive uninterpreted (only the number of crossings matters)')
    Lf = z3.Function('len', *([z3.RealSort()] * 5))
    orig_len = Line.length

    def run():
        V = [SC(z.real, z.imag) for z in TRIANGLES[tri]]
        pt, opt = symc('pt'), symc('opt')
        c = Ctx.cur
        for z in [pt, opt]:
            c.assume(z.real.e >= -10, z.real.e <= 10, z.imag.e >= -10, z.imag.e <= 10)
        # non-degenerate triangle, opt outside (beyond the bounding box), general position
        c.assume(zabs(cross(V[0], V[1], V[2]).e) >= 0.05)
        c.assume(z3.And(*[opt.real.e < v.real.e - 1 for v in V]), z3.And(*[opt.imag.e < v.imag.e - 1 for v in V]))
        for i in range(3):
            a, b = V[i], V[(i + 1) % 3]
            c.assume(zabs(cross(a, b, pt).e) >= 0.05)                 # pt not on an edge line
            c.assume(zabs(cross(pt, opt, a).e) >= 0.05)               # probe not through a vertex
            d1, d2 = opt - pt, b - a
            c.assume(zabs((d1.real * d2.imag - d1.imag * d2.real).e) >= 0.05)   # not parallel

        def ulen(self, t0=0, t1=1, error=None, min_depth=None):
            v = Lf(lift(self.start.real).e, lift(self.start.imag).e, lift(self.end.real).e, lift(self.end.imag).e)
            Ctx.cur.assume(v > 0)
            return SR(v) * (lift(t1) - lift(t0))
        Line.length = ulen
        try:
            p = Path(*[Line(V[i], V[(i + 1) % 3]) for i in range(3)])
            r = path_encloses_pt(pt, opt, p)
        finally:
            Line.length = orig_len
        return V, pt, opt, r

    for ctx, (kind, val) in explore(run, maxpaths=20000, logic=None):
        R.path(ctx)
        if kind != 'ok':
            R.unexpected(ctx, 'unexpected %s %r' % (kind, val))
            continue
        V, pt, opt, r = val
        s = [cross(V[i], V[(i + 1) % 3], pt).e for i in range(3)]
        inside = z3.Or(z3.And(*[x > 0 for x in s]), z3.And(*[x < 0 for x in s]))

        def cex(m):
            tri = [mcval(m, v) for v in V]
            return {'cls': 'path_encloses_pt (triangle)', 'inputs': {'tri': str(tri), 'pt': str(mcval(m, pt)), 'opt': str(mcval(m, opt))},
                    'script': REPLAY_ENC % (tri, mcval(m, pt), mcval(m, opt))}
        R.ob('triangle.encloses', ctx, inside if r else z3.Not(inside), cex=cex, timeout_ms=60000)
        if R.paths % 50 == 1:
            R.sample({'result': bool(r), 'decisions': ''.join('TF'[not d[0]] for d in ctx.decisions[:ctx.pos])})


REPLAY_CONTAINED = """
ib, ob = %r, %r
outer = Path(Line(complex(ob[0], ob[2]), complex(ob[1], ob[2])), Line(complex(ob[1], ob[2]), complex(ob[1], ob[3])),
             Line(complex(ob[1], ob[3]), complex(ob[0], ob[3])), Line(complex(ob[0], ob[3]), complex(ob[0], ob[2])))
inner = Path(Line(complex(ib[0], ib[2]), complex(ib[1], ib[3])))
# the inner segment lies strictly inside the rectangle: contained, not crossing, start enclosed
strictly = ob[0] < ib[0] <= ib[1] < ob[1] and ob[2] < ib[2] <= ib[3] < ob[3]
if strictly:
    got = inner.is_contained_by(outer)
    if got is not True and got != True:
        REPRODUCED('%%r.is_contained_by(rectangle %%r) = %%r although the segment lies strictly inside it' %% (inner, ob, got))
    out = Path(Line(complex(ob[1] + 1 + ib[0] - ob[0], ib[2]), complex(ob[1] + 1 + ib[1] - ob[0], ib[3])))
    got = out.is_contained_by(outer)
    if got:
        REPRODUCED('%%r.is_contained_by(rectangle %%r) = %%r although the segment lies outside it' %% (out, ob, got))
"""


def fam_contained(R):
    """Path.is_contained_by on two paths known through: whether they cross (Path.intersect, C11/C12), the inner start point, both
    bounding boxes (C08) and the even-odd enclosure of the start point (path_encloses_pt, the other families of this check)."""
    import svgpathtools.path as P
    from svgpathtools.path import Path, Line
    R.bound(paths='two stub paths: crossing flag, start point, boxes and enclosure symbolic')
    R.stub('Path.intersect(justonemode) -> [marker] iff the symbolic flag `cross`', 'Path.bbox -> symbolic boxes (the inner box contains the inner start)',
           'path_encloses_pt -> symbolic flag `enclosed` (implies the point lies in the outer box)')
    rec = []

    def run():
        del rec[:]
        cx = Ctx.cur
        cross, enc = z3.Bool('cross'), z3.Bool('enclosed')
        pt = symc('pt')
        ib = [symr('i_' + n) for n in ('xmin', 'xmax', 'ymin', 'ymax')]
        ob = [symr('o_' + n) for n in ('xmin', 'xmax', 'ymin', 'ymax')]
        cx.assume(ib[0].e <= ib[1].e, ib[2].e <= ib[3].e, ob[0].e <= ob[1].e, ob[2].e <= ob[3].e)
        cx.assume(ib[0].e <= pt.real.e, pt.real.e <= ib[1].e, ib[2].e <= pt.imag.e, pt.imag.e <= ib[3].e)
        cx.assume(z3.Implies(enc, z3.And(ob[0].e <= pt.real.e, pt.real.e <= ob[1].e, ob[2].e <= pt.imag.e, pt.imag.e <= ob[3].e)))
        # not crossing and enclosed start: the whole inner path, hence its box, lies inside the outer box
        cx.assume(z3.Implies(z3.And(z3.Not(cross), enc), z3.And(ob[0].e <= ib[0].e, ib[1].e <= ob[1].e, ob[2].e <= ib[2].e, ib[3].e <= ob[3].e)))
        inner = Path(Line(0j, 1 + 0j))
        outer = Path(Line(0j, 1 + 0j), Line(1 + 0j, 1j), Line(1j, 0j))

        def isect(other, justonemode=False, tol=1e-12):
            rec.append(('intersect', other, justonemode))
            return ['crossing'] if SB(cross) else []
        inner.intersect = isect
        inner.point = lambda t: (rec.append(('point', t)), pt)[1]
        inner.bbox = lambda: tuple(ib)
        outer.bbox = lambda: tuple(ob)

        def enc_stub(p, opt, path):
            rec.append(('encloses', p, opt, path))
            return SB(enc)
        def cplx(re=0, im=0):
            if isinstance(re, (SR, SC)) or isinstance(im, SR):
                return tosc(re) + tosc(im) * 1j
            return complex(re, im)
        with patched(P, path_encloses_pt=enc_stub, min=sym_min, max=sym_max, complex=cplx):
            r = inner.is_contained_by(outer)
        return cross, enc, pt, ib, ob, inner, outer, r, list(rec)

    for ctx, (kind, val) in explore(run, maxpaths=500, logic=None):
        R.path(ctx)
        if kind != 'ok':
            R.unexpected(ctx, 'unexpected %s %r' % (kind, val))
            continue
        cross, enc, pt, ib, ob, inner, outer, r, rc = val

        def cex(m):
            i_, o_ = [mval(m, b) for b in ib], [mval(m, b) for b in ob]
            return {'cls': 'is_contained_by differs from (no crossing and start enclosed)', 'inputs': {'inner_box': i_, 'outer_box': o_, 'cross': str(m.eval(cross)), 'enclosed': str(m.eval(enc))},
                    'script': REPLAY_CONTAINED % (i_, o_)}
        strictly = [ob[0].e + 1 <= ib[0].e, ib[1].e + 1 <= ob[1].e, ob[2].e + 1 <= ib[2].e, ib[3].e + 1 <= ob[3].e, z3.Not(cross), enc,
                    pt.real.e == ib[0].e, pt.imag.e == ib[2].e, zabs(ob[0].e) <= 50, zabs(ob[1].e) <= 50, zabs(ob[2].e) <= 50, zabs(ob[3].e) <= 50]
        claim = zbool(r) == z3.And(z3.Not(cross), enc)
        R.ob('contained=(no crossing and start enclosed)', ctx, claim, cex=cex, robust=strictly + [z3.Not(claim)])
        for c_ in rc:
            if c_[0] == 'encloses':
                opt = tosc(c_[2])
                R.ob('probe-end-outside-outer-box', ctx, z3.Or(opt.real.e < ob[0].e, opt.real.e > ob[1].e, opt.imag.e < ob[2].e, opt.imag.e > ob[3].e), cex=cex)
                R.ob('probe-start=inner-start', ctx, z3.And(ceq(c_[1], pt), z3.BoolVal(c_[3] is outer)), cex=cex)
            if c_[0] == 'intersect':
                R.ob('crossing-test-against-outer', ctx, z3.BoolVal(c_[1] is outer), cex=cex)
            if c_[0] == 'point':
                R.ob('inner-start-is-point(0)', ctx, lift(c_[1]).e == 0, cex=cex)
        R.sample({'result': str(r)[:40]})


def families(tier):
    M = 'vf.props.c14'
    fams = []
    ks = ['Q', 'C', 'LL', 'LQ', 'LC', 'QC', 'CC', 'LLL', 'LLQ', 'LLC', 'LLLL']
    if tier == 'thorough':
        ks += ['LQC', 'QQQ', 'CCC', 'LQLC']
    for k in ks:
        fams.append(('area-%s' % k, M, 'fam_area', {'kinds': k}))
    for t in (TRIANGLES if tier == 'thorough' else ['ccw-acute']):
        fams.append(('encloses-%s' % t, M, 'fam_encloses', {'tri': t}))
    fams.append(('is-contained-by', M, 'fam_contained', {}))
    # area of paths with arcs under translated/rotated/scaled: the transformed Arc keeps its flags, scales its radii, moves its end points (shared with C10)
    fams.append(('arc-ops-structure', 'vf.props.c10', 'fam_arc_ops_structure', {}))
    # is_contained_by rejects on the outer path's bounding box and aims its probe just outside it: the boxes must contain the curve (shared with C08)
    fams.append(('bbox-cubic-degenerate', 'vf.props.c08', 'fam_minmax', {'deg': 3, 'degenerate': True}))
    fams.append(('bbox-quadratic', 'vf.props.c08', 'fam_minmax', {'deg': 2, 'degenerate': False}))
    for k in range(5):
        fams.append(('bbox-cubic-closed-form-%d' % k, 'vf.props.c08', 'fam_minmax', {'deg': 3, 'degenerate': False, 'shard': (k, 5)}))
    # the enclosure probe is a Line intersected with every segment of the outline: for arcs, the closed form of Arc x Line (shared with C11)
    for nm, rad in (('2x1', (2.0, 1.0)), ('1x3', (1.0, 3.0)), ('circle', (2.0, 2.0))):
        for ln in ('slope', 'vertical'):
            fams.append(('arc-line-closed-form-%s-%s' % (nm, ln), 'vf.props.c11', 'fam_arc_line_candidates', {'radii': rad, 'line': ln}))
    return fams
