"""C18 -- paths written to SVG are read back unchanged, with attributes."""
import itertools
import os
import tempfile

import z3

from ..symx import (SR, SC, SB, explore, symc, symr, ceq, req, mval, mcval, Ctx, lift, zabs, Abort, TOK)
from ..stubs import NPProxy, patched, float_stub
from .c01 import mkseg, segeq, concretize

META = {
    'explanation': (
        'The I/O stack (svgwrite, minidom, expat, ElementTree, the file system) runs concretely; the PAYLOAD is symbolic: lists of 1-2 '
        'paths of 1-2 Line/Quadratic/Cubic/Arc segments with symbolic coordinates (every coincidence pattern forks inside Path.d as in '
        'C01) plus per-path and svg-level attributes are written with wsvg / Document.add_path+save / SaxDocument.save and read back '
        'with svg2paths2, Document.paths and SaxDocument; z3 decides that the same number of paths comes back, in the same order, each '
        'equal to the original segment by segment for all coordinates, and the supplied attributes are present with unchanged values.  '
        'Document histories (empty or loaded document -> add_group / add_path -> paths() -> save -> reload): a path that was added is '
        'returned by paths() of the same Document before and after the reload.'),
    'outside': ['XML/file-system layers (executed, not modelled)', 'more than 2 paths / 2 segments per path', 'attribute vocabularies beyond the fixed sample'],
    'assumptions': ['float(repr(x)) == x', 'Arc._parameterize no-op (C04)'],
}

ATTRS = [{'stroke': 'red', 'fill': 'none', 'xml:space': 'preserve'}, {'stroke-width': '2.5', 'id': 'second one', 'stroke': '#00ff00'}]
SVG_ATTRS = {'width': '300px', 'height': '200px', 'viewBox': '0 0 30 20'}
SVG_ATTR_SETS = {'full': SVG_ATTRS, 'width-only': {'width': '300px', 'viewBox': '0 0 30 20'}, 'height-only': {'height': '200px'},
                 # document-wide defaults on <svg> whose names also occur per path, with other values
                 'overlap': {'id': 'drawing', 'fill': 'black', 'stroke': 'grey', 'stroke-width': '1', 'width': '300px', 'height': '200px', 'viewBox': '0 0 30 20'}}


def build_paths(spec):
    from svgpathtools.path import Path, Line
    paths = []
    idx = 0
    for kinds in spec:
        if kinds == 'empty':
            paths.append(Path())
            continue
        if kinds == 'dup0':
            # the same path data a second time (e.g. an outline drawn twice with different strokes)
            paths.append(Path(*list(paths[0])))
            continue
        segs = []
        for k in kinds:
            s = mkseg(k, idx, None)
            idx += 1
            if isinstance(s, Line):
                Ctx.cur.assume(z3.Not(ceq(s.start, s.end)))
            segs.append(s)
        paths.append(Path(*segs))
    return paths


REPLAY = '''
import tempfile, os
from svgpathtools import wsvg, svg2paths2, Document
from svgpathtools.svg_io_sax import SaxDocument
paths = [%s]
attrs = %r; svg_attrs = %r; writer = %r; reader = %r
fd, fn = tempfile.mkstemp(suffix='.svg'); os.close(fd)
try:
    if writer == 'wsvg':
        wsvg(paths, attributes=[attrs[i %% len(attrs)] for i in range(len(paths))], svg_attributes=dict(svg_attrs), viewbox='0 0 30 20', filename=fn)
    elif writer == 'Document':
        doc = Document()
        for i, p in enumerate(paths): doc.add_path(p, attrs[i %% len(attrs)])
        doc.save(fn)
    else:
        wsvg(paths, attributes=[attrs[i %% len(attrs)] for i in range(len(paths))], svg_attributes=dict(svg_attrs), viewbox='0 0 30 20', filename=fn)
        sd = SaxDocument(fn); sd.save(fn)
    got_attrs = None; got_svg = None
    if reader == 'svg2paths2': out, got_attrs, got_svg = svg2paths2(fn)
    elif reader == 'Document': out = Document(fn).paths(); got_attrs = [dict(p.element.attrib) for p in out]
    else:
        sd_ = SaxDocument(fn); out = sd_.flatten_all_paths()
        if len(sd_.tree) == len(out): got_attrs = [dict(e) for e in sd_.tree]
        got_svg = dict(sd_.root_values)
finally:
    os.remove(fn)
if len(out) != len(paths): REPRODUCED('%%s -> %%s: %%d paths written, %%d read back' %% (writer, reader, len(paths), len(out)))
for p, q in zip(paths, out):
    same = len(p) == len(q) and all(type(a) is type(b) and all(close(x, y) for x, y in zip((a.bpoints() if not isinstance(a, Arc) else (a.start, a.radius, a.rotation, a.end)),
                                                                                      (b.bpoints() if not isinstance(b, Arc) else (b.start, b.radius, b.rotation, b.end)))) for a, b in zip(p, q))
    if not same: REPRODUCED('%%s -> %%s: %%r read back as %%r' %% (writer, reader, p, q))
if got_attrs is not None and writer != 'SaxDocument':
    for a, g in zip(attrs, got_attrs):
        for k, v in a.items():
            gv = g.get(k, g.get(k.replace('xml:', '{http://www.w3.org/XML/1998/namespace}')))
            if gv != v: REPRODUCED('attribute %%r=%%r came back as %%r' %% (k, v, gv))
if got_svg is not None and writer == 'wsvg':
    for k, v in svg_attrs.items():
        if got_svg.get(k) != v: REPRODUCED('svg attribute %%r=%%r came back as %%r' %% (k, v, got_svg.get(k)))
'''


def fam_roundtrip(R, writer, reader, spec, svgset='full'):
    import svgpathtools.path as P
    import svgpathtools.paths2svg as W
    import svgpathtools.svg_to_paths as S2P
    import svgpathtools.document as DOC
    import svgpathtools.svg_io_sax as SAX
    import svgpathtools.parser as PR
    from svgpathtools.path import Arc
    Arc._parameterize = lambda self: None
    P.float = float_stub
    P.np = NPProxy()
    SVG_ATTRS = SVG_ATTR_SETS[svgset]
    R.bound(writer=writer, reader=reader, paths=spec, svg_attributes=SVG_ATTRS)
    R.stub('float -> placeholder-token map', 'Arc._parameterize no-op', 'files written to a temp dir and removed')

    def run():
        TOK.reset()
        paths = build_paths(spec)
        attrs = [dict(ATTRS[i % len(ATTRS)]) for i in range(len(paths))]
        fd, fn = tempfile.mkstemp(suffix='.svg')
        os.close(fd)
        try:
            with patched(S2P, float=float_stub), patched(PR, float=float_stub):
                if writer == 'wsvg':
                    W.wsvg(paths, attributes=attrs, svg_attributes=dict(SVG_ATTRS), viewbox='0 0 30 20', filename=fn)
                elif writer == 'Document':
                    doc = DOC.Document()
                    for p, a in zip(paths, attrs):
                        doc.add_path(p, a)
                    doc.save(fn)
                else:
                    W.wsvg(paths, attributes=attrs, svg_attributes=dict(SVG_ATTRS), viewbox='0 0 30 20', filename=fn)
                    sd = SAX.SaxDocument(fn)
                    sd.save(fn)
                got_attrs = got_svg = None
                if reader == 'svg2paths2':
                    out, got_attrs, got_svg = S2P.svg2paths2(fn)
                elif reader == 'Document':
                    out = DOC.Document(fn).paths()
                    got_attrs = [dict(p_.element.attrib) for p_ in out]
                else:
                    sd_ = SAX.SaxDocument(fn)
                    out = sd_.flatten_all_paths()
                    if len(sd_.tree) == len(out):
                        got_attrs = [dict(e_) for e_ in sd_.tree]
                    got_svg = dict(sd_.root_values)
        finally:
            if os.path.exists(fn):
                os.remove(fn)
        return paths, attrs, out, got_attrs, got_svg

    for ctx, (kind, val) in explore(run, maxpaths=400):
        R.path(ctx)
        if kind != 'ok':
            R.unexpected(ctx, '%s->%s %s: unexpected %s %r' % (writer, reader, spec, kind, val))
            continue
        paths, attrs, out, got_attrs, got_svg = val

        def cex(m):
            return {'cls': classify(writer, reader, paths, out), 'inputs': {'paths': [concretize(m, p) for p in paths]},
                    'script': REPLAY % (', '.join(concretize(m, p) for p in paths), attrs, SVG_ATTRS, writer, reader)}
        from .c01 import all_int
        robust = []
        for p in paths:
            robust += all_int(p, -9, 9)
        claim = z3.BoolVal(len(out) == len(paths))
        if len(out) == len(paths):
            cj = []
            for p, q in zip(paths, out):
                if len(p) != len(q):
                    cj.append(z3.BoolVal(False))
                else:
                    cj += [segeq(a, b) for a, b in zip(p, q)]
            claim = z3.And(*cj)
        R.ob('%s->%s.paths' % (writer, reader), ctx, claim, cex=cex, robust=robust, timeout_ms=60000)
        if got_attrs is not None and writer != 'SaxDocument' and len(out) == len(paths):
            XMLNS = '{http://www.w3.org/XML/1998/namespace}'
            ok = all(g.get(k, g.get(k.replace('xml:', XMLNS))) == v for a, g in zip(attrs, got_attrs) for k, v in a.items())
            R.ob('%s->%s.attributes' % (writer, reader), ctx, z3.BoolVal(ok), cex=cex, robust=robust)
        if got_svg is not None and writer == 'wsvg':
            ok = all(got_svg.get(k) == v for k, v in SVG_ATTRS.items())
            R.ob('%s->%s.svg-attributes' % (writer, reader), ctx, z3.BoolVal(ok), cex=cex, robust=robust)
        if R.paths % 10 == 1:
            R.sample({'writer': writer, 'reader': reader, 'paths': spec})


def classify(writer, reader, paths, out):
    if len(out) != len(paths):
        if writer == 'Document' and reader in ('Document', 'SaxDocument'):
            return 'Document.add_path writes un-namespaced path elements (invisible to namespace-aware readers)'
        return '%s -> %s: number of paths' % (writer, reader)
    return '%s -> %s: path payload' % (writer, reader)


REPLAY_HIST = '''
import tempfile, os
from svgpathtools import Document
loaded = %r; in_group = %r
src = '<svg xmlns="http://www.w3.org/2000/svg"><g id="g0"><path d="M0,0 L1,1"/></g></svg>'
doc = Document.from_svg_string(src) if loaded else Document()
before = len(doc.paths())
p = Path(Line(2+0j, 3+1j), Line(3+1j, 5+5j))
grp = doc.add_group({'id': 'new'}) if in_group else None
doc.add_path(p, {'stroke': 'blue'}, group=grp)
now = doc.paths()
if len(now) != before + 1 or not any(q == p for q in now):
    REPRODUCED('after add_path the Document (loaded=%%r, group=%%r) returns %%d paths (had %%d): the added path is not among them' %% (loaded, in_group, len(now), before))
fd, fn = tempfile.mkstemp(suffix='.svg'); os.close(fd)
try:
    doc.save(fn); again = Document(fn).paths()
finally:
    os.remove(fn)
if len(again) != before + 1 or not any(q == p for q in again): REPRODUCED('after save/reload the added path is missing: %%d paths' %% len(again))
'''


def fam_document_history(R, loaded, in_group):
    import svgpathtools.path as P
    import svgpathtools.document as DOC
    import svgpathtools.parser as PR
    import svgpathtools.svg_to_paths as S2P
    P.float = float_stub
    P.np = NPProxy()
    R.bound(history='%s -> %sadd_path -> paths() -> save -> reload -> paths()' % ('load' if loaded else 'new', 'add_group -> ' if in_group else ''))

    def run():
        TOK.reset()
        p = build_paths([('L', 'C')])[0]
        src = '<svg xmlns="http://www.w3.org/2000/svg"><g id="g0"><path d="M0,0 L1,1"/></g></svg>'
        with patched(S2P, float=float_stub), patched(PR, float=float_stub):
            doc = DOC.Document.from_svg_string(src) if loaded else DOC.Document()
            before = len(doc.paths())
            grp = doc.add_group({'id': 'new'}) if in_group else None
            doc.add_path(p, {'stroke': 'blue'}, group=grp)
            now = [list(q) for q in doc.paths()]
            fd, fn = tempfile.mkstemp(suffix='.svg')
            os.close(fd)
            try:
                doc.save(fn)
                again = [list(q) for q in DOC.Document(fn).paths()]
            finally:
                os.remove(fn)
        return p, before, now, again

    for ctx, (kind, val) in explore(run, maxpaths=100):
        R.path(ctx)
        if kind != 'ok':
            R.unexpected(ctx, 'unexpected %s %r' % (kind, val))
            continue
        p, before, now, again = val

        def cex(m):
            return {'cls': 'Document.add_path writes un-namespaced path elements (invisible to namespace-aware readers)',
                    'inputs': {'loaded': loaded, 'in_group': in_group}, 'script': REPLAY_HIST % (loaded, in_group)}

        def present(lst):
            alts = []
            for q in lst:
                if len(q) == len(p):
                    alts.append(z3.And(*[segeq(a, b) for a, b in zip(p, q)]))
            return z3.Or(*alts) if alts else z3.BoolVal(False)
        R.ob('history.visible-after-add', ctx, z3.And(z3.BoolVal(len(now) == before + 1), present(now)), cex=cex)
        R.ob('history.visible-after-reload', ctx, z3.And(z3.BoolVal(len(again) == before + 1), present(again)), cex=cex)
        R.sample({'loaded': loaded, 'in_group': in_group, 'paths_before': before, 'after_add': len(now), 'after_reload': len(again)})


def families(tier):
    M = 'vf.props.c18'
    fams = []
    specs = [[('L',)], [('C', 'L')], [('A',)], [('L',), ('Q',)]]
    if tier == 'thorough':
        specs += [[('Q', 'A')], [('L', 'L'), ('C',)], [('A', 'C')], [('Q', 'Q'), ('L', 'A')], [('C', 'C')]]
    for writer in ('wsvg', 'Document', 'SaxDocument'):
        for reader in ('svg2paths2', 'Document', 'SaxDocument'):
            for i, spec in enumerate(specs):
                if tier == 'quick' and writer != 'wsvg' and i not in (1, 3):
                    continue
                fams.append(('%s-%s-%d' % (writer, reader, i), M, 'fam_roundtrip', {'writer': writer, 'reader': reader, 'spec': spec}))
    for reader in ('svg2paths2', 'Document', 'SaxDocument'):
        fams.append(('wsvg-%s-overlapping-attribute-names' % reader, M, 'fam_roundtrip', {'writer': 'wsvg', 'reader': reader, 'spec': [('L',), ('Q',)], 'svgset': 'overlap'}))
        fams.append(('wsvg-%s-duplicate-path-data' % reader, M, 'fam_roundtrip', {'writer': 'wsvg', 'reader': reader, 'spec': [('C', 'L'), 'dup0']}))
    # an empty Path between two others (Document writes d=""; wsvg refuses an empty path loudly, which is outside this family)
    fams.append(('Document-svg2paths2-empty-path', M, 'fam_roundtrip', {'writer': 'Document', 'reader': 'svg2paths2', 'spec': [('L',), 'empty', ('Q',)]}))
    for ss in ('width-only', 'height-only'):
        fams.append(('wsvg-svg2paths2-svgattrs-%s' % ss, M, 'fam_roundtrip', {'writer': 'wsvg', 'reader': 'svg2paths2', 'spec': [('L',)], 'svgset': ss}))
    for loaded in (False, True):
        for in_group in (False, True):
            fams.append(('history-%s-%s' % ('loaded' if loaded else 'new', 'group' if in_group else 'root'), M, 'fam_document_history',
                         {'loaded': loaded, 'in_group': in_group}))
    return fams
