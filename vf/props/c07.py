"""C07 -- ilength inverts length on [0, L], is total and terminates."""
import ast
import inspect
import textwrap
import time

import z3

from ..symx import (SR, SC, SB, explore, symc, symr, ceq, req, mval, mcval, Ctx, lift, zabs, Abort, zbool)
from ..stubs import NPProxy, patched
from .. import fpx

META = {
    'explanation': (
        'inv_arclength runs for real on (a) a Line with symbolic end points, (b) a CubicBezier subclass whose length(t1=t) is an '
        'uninterpreted strictly increasing function ell with ell(0)=0 (monotonicity instantiated on every evaluated pair), with the '
        'function\'s own maxits parameter as the unrolling bound m<=5, (c) Paths of n<=3 such segments whose inverse is an '
        'uninterpreted function (the recursive call is intercepted for segments only).  z3 decides: ValueError iff s outside [0,L]; '
        'ilength(0)=0, ilength(L)=1; Line: s/L; every returned t is in [0,1] and satisfies |ell(t)-s| < s_tol or is a stall exit with '
        'ell(t_lower) <= s <= ell(t_upper); Path: the chosen segment contains s and the result is t2T(k, inv_k(s - lsum)).  '
        'Termination in binary64: the body of the bisection loop is cut out of the current source of inv_arclength (ast), compiled '
        'as a one-step function and executed on IEEE binary64 symbolic values from an ARBITRARY state 0<=lo<hi<=1 with an arbitrary '
        'length answer: is there a state in which the step neither returns nor changes (lo,hi) (a fixpoint of a deterministic loop = '
        'runs to maxits and raises)?  And: does the midpoint ever leave [lo,hi]?'),
    'outside': ['that the returned t is within tolerance of the TRUE inverse (depends on the accuracy of length(): C06 unclaimed part)',
                '10000-iteration end-to-end runs; <=1100 halvings exhaust [0,1] is an argument, not a query'],
    'assumptions': ['length(t1=.) is non-decreasing in t (strictly increasing for the R-domain families)'],
}


def make_ucurve(tag='ell'):
    """CubicBezier subclass with an uninterpreted increasing length function"""
    import svgpathtools.path as P
    ell = z3.Function(tag, z3.RealSort(), z3.RealSort())

    class UCurve(P.CubicBezier):
        def __init__(self):
            P.CubicBezier.__init__(self, 0j, 1j, 1 + 1j, 1 + 0j)
            self.evald = [z3.RealVal(0), z3.RealVal(1)]
            Ctx.cur.assume(ell(0) == 0, ell(1) > 0)

        def length(self, t0=0, t1=1, error=None, min_depth=None):
            t1 = lift(t1)
            c = Ctx.cur
            for a in self.evald:
                c.assume(z3.Implies(a < t1.e, ell(a) < ell(t1.e)), z3.Implies(a > t1.e, ell(a) > ell(t1.e)),
                         z3.Implies(a == t1.e, ell(a) == ell(t1.e)))
            self.evald.append(t1.e)
            return SR(ell(t1.e))
    return UCurve, ell


REPLAY_RANGE = '''
seg = CubicBezier(0j, 30+90j, 70-60j, 100+10j)
L = seg.length()
s = %r * L
for curve in (seg, Line(0j, 3+4j), Line(0j, 0.003+0.004j), QuadraticBezier(0j, 5+5j, 10+0j), Path(Line(0j, 1+0j), seg.translated(1)), Arc(0j, 2+1j, 10.0, False, True, 2+1j)):
  import math
  Lc = curve.length()
  for sc in (%r * Lc, math.nextafter(Lc, math.inf), -5e-324, Lc * (1 + 1e-15), Lc + 5e-13):
    try:
        t = curve.ilength(sc)
        raised = False
    except ValueError:
        raised = True
    except Exception as e:
        REPRODUCED('ilength(%%r) on %%r raised %%r' %% (sc, curve, e))
    if raised != (not (0 <= sc <= Lc)):
        REPRODUCED('%%r.ilength(%%r): ValueError raised=%%r but L=%%r' %% (curve, sc, raised, Lc))
    if not raised and not (0 <= t <= 1): REPRODUCED('ilength returned %%r outside [0,1]' %% t)
'''


def fam_segment(R, m):
    import svgpathtools.path as P
    R.bound(maxits=m)
    R.stub('curve.length(t1=t) -> uninterpreted strictly increasing ell(t)')
    P.np = NPProxy()

    def run():
        UCurve, ell = make_ucurve()
        c = Ctx.cur
        curve = UCurve()
        s, tol = symr('s'), symr('s_tol')
        c.assume(tol.e > 0)
        try:
            with patched(P, warn=lambda *a, **k: None):
                r = ('ok', P.inv_arclength(curve, s, s_tol=tol, maxits=m))
        except ValueError as e:
            r = ('ValueError', e)
        except AssertionError as e:
            raise Abort()
        except Exception as e:
            r = ('maxits' if 'Maximum iterations' in str(e) else 'other', e)
        return curve, ell, s, tol, r

    for ctx, (kind, val) in explore(run, maxpaths=4000, logic=None):
        if kind == 'abort':
            continue
        R.path(ctx)
        if kind != 'ok':
            R.unexpected(ctx, 'unexpected %s %r' % (kind, val))
            continue
        curve, ell, s, tol, (rk, rv) = val
        L = ell(1)

        def cex(m_):
            frac = mval(m_, s) / max(mval(m_, SR(L)), 1e-9)
            return {'cls': 'inv_arclength range/return contract', 'inputs': {'s/L': frac, 'result': rk},
                    'script': REPLAY_RANGE % (frac, frac)}
        inside = z3.And(s.e >= 0, s.e <= L)
        if rk == 'ValueError':
            R.ob('m%d.ValueError-only-outside' % m, ctx, z3.Not(inside), cex=cex, robust=[z3.Or(s.e > L + 0.5, s.e < -0.5)] if False else None)
        elif rk == 'ok':
            t = lift(rv)
            R.ob('m%d.returns-only-inside' % m, ctx, inside, cex=cex)
            R.ob('m%d.t-in-[0,1]' % m, ctx, z3.And(t.e >= 0, t.e <= 1), cex=cex)
            R.ob('m%d.s=0->0,s=L->1' % m, ctx, z3.And(z3.Implies(s.e == 0, t.e == 0), z3.Implies(s.e == L, t.e == 1)), cex=cex)
            # accuracy contract of a returned t
            R.ob('m%d.|ell(t)-s|<tol' % m, ctx, z3.Or(s.e == 0, s.e == L, zabs(ell(t.e) - s.e) < tol.e), cex=cex)
        elif rk == 'maxits':
            # over the reals the loop may legitimately run out of its (tiny) iteration budget; nothing to claim
            R.obligations += 1
            R.discharged += 1
        else:
            R.unexpected(ctx, 'unexpected exception %r' % (rv,))
        if R.paths % 20 == 1:
            R.sample({'maxits': m, 'result': rk, 'decisions': ''.join('TF'[not d[0]] for d in ctx.decisions[:ctx.pos])})


def fam_line(R):
    import svgpathtools.path as P
    from svgpathtools.path import Line
    P.np = NPProxy()

    def run():
        a, b = symc('a'), symc('b')
        s = symr('s')
        Ctx.cur.assume(z3.Not(ceq(a, b)))
        ln = Line(a, b)
        try:
            r = ('ok', ln.ilength(s))
        except ValueError as e:
            r = ('ValueError', e)
        return ln, s, r

    for ctx, (kind, val) in explore(run, maxpaths=100):
        R.path(ctx)
        if kind != 'ok':
            R.unexpected(ctx, 'unexpected %s %r' % (kind, val))
            continue
        ln, s, (rk, rv) = val
        L = abs(ln.end - ln.start)
        inside = z3.And(s.e >= 0, s.e <= L.e)

        def cex(m_):
            frac = mval(m_, s) / max(mval(m_, L), 1e-9)
            return {'cls': 'inv_arclength range/return contract', 'inputs': {'s/L': frac}, 'script': REPLAY_RANGE % (frac, frac)}
        if rk == 'ValueError':
            R.ob('line.ValueError-only-outside', ctx, z3.Not(inside), cex=cex)
        else:
            R.ob('line.returns-only-inside', ctx, inside, cex=cex)
            R.ob('line.t=s/L', ctx, (lift(rv) * L).e == s.e, cex=cex)
        R.sample({'line': rk})


class PSeg:
    """path segment stub: free length, uninterpreted inverse, symbolic identity for =="""

    def __init__(self, k, cls):
        self.k = k
        self.l = symr('l%d' % k)
        self.ident = symr('id%d' % k)
        self.start = symc('a%d' % k)
        self.end = symc('b%d' % k)

    def length(self, t0=0, t1=1, error=None, min_depth=None):
        return self.l

    def __eq__(self, o):
        if not isinstance(o, PSeg):
            return NotImplemented
        return self.ident == o.ident       # SB: equal-looking segments are a symbolic possibility

    def __ne__(self, o):
        r = self.__eq__(o)
        return r if r is NotImplemented else ~r

    __hash__ = None


REPLAY_PATH = '''
ls = %r; dup = %r; frac = %r
segs = []
for i, l in enumerate(ls):
    if i in dup and dup[i] < i:
        segs.append(Line(segs[dup[i]].start, segs[dup[i]].end))          # an equal copy of an earlier segment
    else:
        segs.append(Line(complex(0, i), complex(l, i)))
ls = [s.length() for s in segs]
p = Path(*segs)
L = p.length(); s = frac * L
try:
    T = p.ilength(s)
except Exception as e:
    REPRODUCED('Path.ilength(%%r) raised %%r (L=%%r)' %% (s, e, L))
if not 0 <= T <= 1: REPRODUCED('T outside [0,1]')
# arc length from 0 to T must be s (lines: exact up to rounding)
acc = 0.0; tot = sum(ls); want = None
for i, l in enumerate(ls):
    if acc <= s <= acc + l:
        want = (acc + (s - acc)) / tot; break
    acc += l
if abs(T - s / tot) > 1e-9: REPRODUCED('Path.ilength(%%r) = %%r but the arc length fraction is %%r (segments %%r)' %% (s, T, s / tot, segs))
'''


def fam_path(R, n):
    import svgpathtools.path as P
    from svgpathtools.path import Path
    P.np = NPProxy()
    R.bound(n=n)
    R.stub('segment.length -> free l_k>0', 'inv_arclength(segment, s) -> uninterpreted inv_k(s) in [0,1] (recursive call intercepted for segments only)',
           'segment == segment -> symbolic (equal-looking segments possible)')
    inv = [z3.Function('inv%d' % k, z3.RealSort(), z3.RealSort()) for k in range(n)]
    real_inv = P.inv_arclength

    def run():
        segs = [PSeg(k, None) for k in range(n)]
        c = Ctx.cur
        c.assume(*[s_.l.e > 0 for s_ in segs])
        s = symr('s')
        calls = []

        def wrapper(curve, s_, **kw):
            if isinstance(curve, PSeg):
                v = inv[curve.k](lift(s_).e)
                c.assume(v >= 0, v <= 1)
                calls.append((curve.k, lift(s_)))
                return SR(v)
            return real_inv(curve, s_, **kw)
        p = Path(*segs)
        try:
            with patched(P, inv_arclength=wrapper):
                r = ('ok', p.ilength(s))
        except ValueError as e:
            r = ('ValueError', e)
        return segs, p, s, calls, r

    for ctx, (kind, val) in explore(run, maxpaths=5000, logic=None):
        R.path(ctx)
        if kind != 'ok':
            R.unexpected(ctx, 'unexpected %s %r' % (kind, val))
            continue
        segs, p, s, calls, (rk, rv) = val
        L = sum((x.l for x in segs[1:]), segs[0].l)
        inside = z3.And(s.e >= 0, s.e <= L.e)

        def cex(m_):
            ls = [mval(m_, x.l) for x in segs]
            ids = [mval(m_, x.ident) for x in segs]
            dup = {i: min(j for j in range(n) if ids[j] == ids[i]) for i in range(n)}
            frac = mval(m_, s) / max(sum(ls), 1e-9)
            return {'cls': 'Path.ilength', 'inputs': {'lengths': ls, 'equal_to_earlier': dup, 's/L': frac},
                    'script': REPLAY_PATH % (ls, dup, frac)}
        def cex_range(m_):
            frac = mval(m_, s) / max(mval(m_, L), 1e-9)
            return {'cls': 'inv_arclength range/return contract', 'inputs': {'s/L': frac}, 'script': REPLAY_RANGE % (frac, frac)}
        if rk == 'ValueError':
            R.ob('n%d.ValueError-only-outside' % n, ctx, z3.Not(inside), cex=cex_range)
            continue
        T = lift(rv)
        R.ob('n%d.returns-only-inside' % n, ctx, inside, cex=cex_range)
        if len(calls) == 1:
            k, sk = calls[0]
            lsum = sum((x.l for x in segs[:k]), lift(0))
            R.ob('n%d.segment-contains-s' % n, ctx, z3.And(lsum.e <= s.e, s.e <= (lsum + segs[k].l).e, req(sk, s - lsum)), cex=cex)
            tk = SR(inv[k](sk.e))
            want = (lsum + segs[k].l * tk) / L
            R.ob('n%d.T=t2T(k,inv_k(s-lsum))' % n, ctx, req(T, want), cex=cex,
                 robust=[zabs(T.e - want.e) > 0.05] + [x.l.e >= 1 for x in segs] + [x.l.e <= 5 for x in segs])
        else:
            # s == 0 / s == L shortcuts or the trailing 'return 1'
            R.ob('n%d.shortcut' % n, ctx, z3.Or(z3.And(s.e == 0, T.e == 0), z3.And(s.e == L.e, T.e == 1)), cex=cex_range)
        if R.paths % 20 == 1:
            R.sample({'n': n, 'calls': [(k_, str(v)[:40]) for k_, v in calls]})


# ----------------------------------------------------------------------------
# F domain: one iteration of the bisection loop, cut out of the current source
# ----------------------------------------------------------------------------
def extract_step():
    """compile the body of the `while iteration < maxits` loop of
    inv_arclength as  _step(curve, s, s_tol, error, min_depth, t_lower, t_upper)
    -> ('return', t) | ('continue', t_lower, t_upper)."""
    import svgpathtools.path as P
    src = textwrap.dedent(inspect.getsource(P.inv_arclength))
    tree = ast.parse(src)
    loops = [n for n in ast.walk(tree) if isinstance(n, ast.While)]
    assert len(loops) == 1, 'expected exactly one while loop in inv_arclength'
    body = loops[0].body

    class RetTx(ast.NodeTransformer):
        def visit_Return(self, node):
            return ast.copy_location(ast.Return(value=ast.Tuple(elts=[ast.Constant('return'), node.value], ctx=ast.Load())), node)
    body = [RetTx().visit(b) for b in body]
    body.append(ast.Return(value=ast.Tuple(elts=[ast.Constant('continue'), ast.Name('t_lower', ast.Load()), ast.Name('t_upper', ast.Load())],
                                           ctx=ast.Load())))
    fn = ast.FunctionDef(name='_step', args=ast.arguments(posonlyargs=[], args=[ast.arg(a) for a in
                         ('curve', 's', 's_tol', 'error', 'min_depth', 't_lower', 't_upper', 'iteration', 'maxits')],
                         kwonlyargs=[], kw_defaults=[], defaults=[]), body=body, decorator_list=[], type_params=[])
    mod = ast.Module(body=[fn], type_ignores=[])
    ast.fix_missing_locations(mod)
    ns = dict(P.__dict__)
    ns['warn'] = lambda *a, **k: None
    exec(compile(mod, '<inv_arclength loop body>', 'exec'), ns)
    return ns['_step'], ast.unparse(mod)


REPLAY_TERM = '''
import math
bad = []
for scale in (1e4, 3e5, 1e6):
    for seg in (CubicBezier(0j, scale*(1+1j), scale*(2+0j), scale*(3+1j)), QuadraticBezier(0j, scale*(1+2j), scale*(3+0j))):
        L = seg.length()
        for frac in (1/3.0, 0.5, 0.77):
            try:
                t = seg.ilength(frac * L)
                if not 0 <= t <= 1: bad.append((seg, frac, t))
            except Exception as e:
                bad.append((seg, frac, repr(e)[:80]))
if bad: REPRODUCED('ilength does not return for large curves: %r' % (bad[:2],))
'''


def fam_fp_step(R):
    from .. import symx
    R.bound(state='arbitrary doubles 0 <= lo < hi <= 1', length_answer='arbitrary finite double', s='finite double', s_tol='positive double')
    R.stub('curve.length(t1=t) -> arbitrary finite binary64 value (one step needs no monotonicity)')
    step, src = extract_step()
    R.sample({'loop body compiled from the current source': src[:600]})
    symx.OPTS['feas_timeout_ms'] = 5000

    class FCurve:
        def __init__(self):
            self.st = fpx.symf('s_t')
            Ctx.cur.assume(fpx.finite(self.st))

        def length(self, t0=0, t1=1, error=None, min_depth=None):
            self.t = t1
            return self.st

    def run():
        c = Ctx.cur
        lo, hi, s, tol = fpx.symf('lo'), fpx.symf('hi'), fpx.symf('s'), fpx.symf('s_tol')
        c.assume(fpx.in_range(lo, 0.0, 1.0), fpx.in_range(hi, 0.0, 1.0), z3.fpLT(lo.e, hi.e), fpx.finite(s),
                 fpx.finite(tol), z3.fpGT(tol.e, z3.FPVal(0.0, fpx.F64)))
        curve = FCurve()
        r = step(curve, s, tol, 1e-12, 5, lo, hi, 0, 10000)
        return lo, hi, s, tol, curve, r

    for ctx, (kind, val) in explore(run, maxpaths=200, logic=None):
        R.path(ctx)
        if kind != 'ok':
            R.unexpected(ctx, 'unexpected %s %r' % (kind, val))
            continue
        lo, hi, s, tol, curve, r = val
        t = curve.t
        name = 'fp.step.' + ''.join('TF'[not d[0]] for d in ctx.decisions[:ctx.pos])
        # the midpoint never leaves [lo, hi]
        R.obligations += 1
        s1 = z3.Solver()
        s1.set('timeout', 60000)
        s1.add(*ctx.pc)
        s1.add(z3.Or(z3.fpLT(fpx.fpv(t), lo.e), z3.fpGT(fpx.fpv(t), hi.e)))
        t0 = time.time()
        r1 = str(s1.check())
        R.solver_time += time.time() - t0
        if r1 == 'unsat':
            R.discharged += 1
        elif r1 == 'unknown':
            R.inconclusive.append(name + '.midpoint-in-[lo,hi]')
        else:
            R.obligations -= 1
            R.direct_cex(name + '.midpoint', {'cls': 'bisection midpoint leaves [lo,hi]', 'inputs': str(s1.model())[:200], 'script': REPLAY_TERM})
        if r[0] == 'return':
            R.obligations += 1
            R.discharged += 1      # a returning step is progress
            continue
        # non-returning step: the state must change (strictly shrink), otherwise the loop is stuck
        nlo, nhi = r[1], r[2]
        R.obligations += 1
        s2 = z3.Solver()
        s2.set('timeout', 60000)
        s2.add(*ctx.pc)
        s2.add(z3.fpEQ(fpx.fpv(nlo), lo.e), z3.fpEQ(fpx.fpv(nhi), hi.e))
        t0 = time.time()
        r2 = str(s2.check())
        R.solver_time += time.time() - t0
        if r2 == 'unsat':
            R.discharged += 1
        elif r2 == 'unknown':
            R.inconclusive.append(name + '.progress')
        else:
            m = s2.model()
            R.obligations -= 1
            R.direct_cex(name + '.stuck', {'cls': 'bisection loop has a stuck state (no float between t_lower and t_upper): runs to maxits and raises',
                                           'inputs': {'lo': fpx.fval(m, lo), 'hi': fpx.fval(m, hi)}, 'script': REPLAY_TERM})


def fam_wrappers(R):
    """the five .ilength methods hand their arguments to inv_arclength unchanged"""
    import svgpathtools.path as P
    R.stub('inv_arclength -> records its arguments', 'Arc._parameterize no-op')
    orig_param = P.Arc._parameterize

    def run():
        P.Arc._parameterize = lambda self: None
        try:
            objs = [P.Line(0j, 1 + 1j), P.QuadraticBezier(0j, 1j, 1 + 1j), P.CubicBezier(0j, 1j, 1 + 1j, 2 + 0j),
                    P.Arc(0j, 2 + 1j, 0, False, True, 1 + 1j), P.Path(P.Line(0j, 1 + 1j))]
        finally:
            P.Arc._parameterize = orig_param
        s, tol, err = symr('s'), symr('s_tol'), symr('error')
        mi, md = 77, 3
        out = []
        for o in objs:
            rec = {}

            def fake(curve, s_, s_tol=None, maxits=None, error=None, min_depth=None):
                rec.update(curve=curve, s=s_, s_tol=s_tol, maxits=maxits, error=error, min_depth=min_depth)
                return 0.5
            with patched(P, inv_arclength=fake):
                r = o.ilength(s, s_tol=tol, maxits=mi, error=err, min_depth=md)
            out.append((type(o).__name__, o, dict(rec), r))
        return s, tol, err, mi, md, out

    for ctx, (kind, val) in explore(run, maxpaths=50):
        R.path(ctx, nontrivial=True)
        if kind != 'ok':
            R.unexpected(ctx, 'unexpected %s %r' % (kind, val))
            continue
        s, tol, err, mi, md, out = val
        for name, o, rec, r in out:
            def cex(m, name=name):
                return {'cls': '%s.ilength does not pass its arguments through' % name, 'inputs': {'s_tol': mval(m, tol), 'error': mval(m, err)},
                        'script': REPLAY_WRAP % name}
            ok = rec.get('curve') is o and rec.get('maxits') == mi and rec.get('min_depth') == md and r == 0.5
            def same(got_, want_):
                return req(got_, want_) if isinstance(got_, (SR, int, float)) else z3.BoolVal(False)     # None: the argument was dropped
            claim = z3.And(z3.BoolVal(bool(ok)), same(rec.get('s'), s), same(rec.get('s_tol'), tol), same(rec.get('error'), err)) if ok else z3.BoolVal(False)
            R.ob('wrapper.%s' % name, ctx, claim, cex=cex, robust=[tol.e == z3.RealVal('1/1000000000000000'), err.e == z3.RealVal('1/1000000000000')])
        R.sample({'wrappers': [n for n, _, _, _ in out]})


REPLAY_WRAP = '''
import svgpathtools.path as P
name = %r
objs = {'Line': Line(0j, 3+4j), 'QuadraticBezier': QuadraticBezier(0j, 5+5j, 10+0j), 'CubicBezier': CubicBezier(0j, 30+90j, 70-60j, 100+10j),
        'Arc': Arc(0j, 2+2j, 0, False, True, 2+2j), 'Path': Path(Line(0j, 3+4j))}
o = objs[name]
rec = {}
real = P.inv_arclength
def spy(curve, s, s_tol=None, maxits=None, error=None, min_depth=None):
    rec.update(s=s, s_tol=s_tol, maxits=maxits, error=error, min_depth=min_depth)
    return real(curve, s, **{k: v for k, v in dict(s_tol=s_tol, maxits=maxits, error=error, min_depth=min_depth).items() if v is not None})
P.inv_arclength = spy
try:
    o.ilength(o.length() / 3, s_tol=1e-15, maxits=77, error=1e-12, min_depth=3)
finally:
    P.inv_arclength = real
if rec.get('s_tol') != 1e-15 or rec.get('error') != 1e-12 or rec.get('maxits') != 77 or rec.get('min_depth') != 3:
    REPRODUCED('%%s.ilength(s, s_tol=1e-15, maxits=77, error=1e-12, min_depth=3) calls inv_arclength with %%r' %% (name, rec))
'''


def families(tier):
    M = 'vf.props.c07'
    fams = [('line', M, 'fam_line', {})]
    for m in ((1, 2, 3) if tier == 'quick' else (1, 2, 3, 4, 5)):
        fams.append(('segment-maxits%d' % m, M, 'fam_segment', {'m': m}))
    for n in (1, 2, 3):
        fams.append(('path-n%d' % n, M, 'fam_path', {'n': n}))
    fams.append(('fp-step', M, 'fam_fp_step', {}))
    fams.append(('wrappers', M, 'fam_wrappers', {}))
    return fams
