"""C04 -- Arc realises the SVG endpoint parameterisation (F.6.5)."""
import itertools
import math
from fractions import Fraction

import numpy as np
import z3

from ..symx import (SR, SC, SB, explore, symc, symr, ceq, req, mval, mcval, Ctx, lift, zabs, Abort, tosc, sq, NonFinite, sqrt_atom)
from ..stubs import NPProxy, patched
from ..ang import Ang

META = {
    'explanation': (
        'The real Arc.__init__/_parameterize/point/derivative/reversed/cropped/as_cubic_curves/as_quad_curves run on inputs given in the '
        'ELLIPSE FRAME: symbolic mid point M, half chord zp=(x1p,y1p), radii rx, ry (also negative-signed), all four flag '
        'combinations, and the rotation taken from a finite set of angles whose cosine and sine are rational (0, 90, 180, 270, -90, '
        '450, and the Pythagorean angles 36.87.., 126.87.., -67.38.. degrees), so that start = M + e^{i phi} zp, end = M - e^{i phi} zp '
        'are polynomial in the free variables.  Angles produced by acos are carried as (degree value, cos, sin) with the range axioms '
        'of acos; t*delta for symbolic t is a free unit pair.  Per control path z3 (QF_NRA) decides: radii = |r| * max(1, sqrt(Lambda)) '
        '(F.6.6), centre = F.6.5.2/3 (oracle with its own sqrt atom), point(0) = start, point(1) = end, point(t) on the ellipse of the '
        'stored centre/radii/rotation, delta > 0 iff sweep, |delta| > 180 iff large_arc (= 180 only for a diameter chord), theta in '
        '[-180,180], derivative(t,k) = k-th formal t-derivative of point(t) for k = 1..8, reversed().point(u) = point(1-u) '
        '(centre/angles), cropped(t0,t1) flags, Bezier approximations start/end at the arc end points and are chained.'),
    'outside': ['rotations whose cosine/sine are not rational (bound: 9 rotations)', 'accuracy of as_cubic_curves/as_quad_curves between their end points',
                'rounding (the np.clip calls exist only for it)', 'monotonicity of the eccentric angle: immediate from the linear theta + t*delta'],
    'assumptions': ['acos range axioms: value in [0,180], strictly decreasing sign pattern, cos/sin pair on the unit circle',
                    'cos/sin of t*delta: an arbitrary point of the unit circle (exact at t=0 and t=1)'],
}

# rotation (degrees) -> rational (cos, sin)
ROTATIONS = {
    '0': (0.0, Fraction(1), Fraction(0)),
    '90': (90.0, Fraction(0), Fraction(1)),
    '180': (180.0, Fraction(-1), Fraction(0)),
    '270': (270.0, Fraction(0), Fraction(-1)),
    '-90': (-90.0, Fraction(0), Fraction(-1)),
    '450': (450.0, Fraction(0), Fraction(1)),
    'p37': (math.degrees(math.atan2(3, 4)), Fraction(4, 5), Fraction(3, 5)),
    'p127': (math.degrees(math.atan2(4, -3)), Fraction(-3, 5), Fraction(4, 5)),
    'm67': (math.degrees(math.atan2(-12, 5)), Fraction(5, 13), Fraction(-12, 13)),
}


class RotDeg(float):
    """a concrete rotation in degrees whose cosine and sine are known rationals"""
    def __new__(cls, deg, c, s):
        o = float.__new__(cls, deg)
        o.c, o.s = c, s
        return o

    def _wrap(self, v):
        return v

    def __add__(self, o):
        r = float.__add__(self, o)
        if isinstance(o, (int, float)) and not isinstance(o, RotDeg) and float(o) % 90 == 0:
            k = int(float(o) // 90) % 4
            c, s = self.c, self.s
            for _ in range(k):
                c, s = -s, c
            return RotDeg(r, c, s)
        return r
    __radd__ = __add__


def my_radians(x):
    if isinstance(x, RotDeg):
        return Ang(z3.RealVal(repr(float(x))), z3.RealVal(str(x.c)), z3.RealVal(str(x.s)), 'rad')
    if isinstance(x, Ang):
        return x.radians()
    if isinstance(x, SR):
        return x.radians()
    return np.radians(x)


def my_degrees(x):
    if isinstance(x, Ang):
        return x.degrees()
    return np.degrees(x)


def install(P):
    from .. import symx
    symx.OPTS['sympy_normalise'] = True    # comparisons are posed on the cancelled rational function (sympy as normaliser)
    symx.OPTS['sqrt_sympy'] = True      # perfect-square radicands: sympy proposes the root, z3 confirms r*r == radicand
    P.np = NPProxy()
    P.radians = my_radians
    P.degrees = my_degrees


def rot_apply(c, s, x, y):
    """R(phi) (x, y) with rational cos/sin"""
    cc, ss = SR(z3.RealVal(str(c))), SR(z3.RealVal(str(s)))
    return SC(cc * x - ss * y, ss * x + cc * y)


RADII = {'2x1': (Fraction(2), Fraction(1)), '1x3': (Fraction(1), Fraction(3)), 'circle': (Fraction(5, 2), Fraction(5, 2)),
         'eccentric': (Fraction(1, 2), Fraction(4))}


U1S = {'e': (Fraction(1), Fraction(0)), 'q1': (Fraction(3, 5), Fraction(4, 5)), 'q2': (Fraction(-4, 5), Fraction(3, 5)),
       's': (Fraction(0), Fraction(-1)), 'w': (Fraction(-1), Fraction(0)), 'q4': (Fraction(5, 13), Fraction(-12, 13))}


def mk_arc(rot, la, sw, neg=(False, False), case='fit', radii='2x1', u1='sym'):
    """Arc given through its ellipse.
    case 'fit'  (Lambda <= 1): centre C, radii, two unit vectors u1, u2 (start/end in the unit-circle frame), with the orientation
                 of (u1,u2) chosen so that the flags select THIS ellipse (of the two through the end points);
    case 'scale' (Lambda > 1): mid point M, unit vector u, factor k > 1: start/end = M +- R (rx k a, ry k b)."""
    import svgpathtools.path as P
    deg, c, s = ROTATIONS[rot]
    if radii == 'symbolic':
        rx, ry = symr('rx'), symr('ry')
        Ctx.cur.assume(rx.e > 0, ry.e > 0)
    else:
        rx, ry = SR(z3.RealVal(str(RADII[radii][0]))), SR(z3.RealVal(str(RADII[radii][1])))
    cx = Ctx.cur
    inp = dict(rx=rx, ry=ry, c=c, s=s, deg=deg, case=case)
    if case == 'fit':
        C = symc('C')
        # unit vectors through the rational parametrisation of the circle (every point but (-1,0)): no unit constraints needed
        p1, p2 = symr('p1'), symr('p2')
        if u1 == 'sym':
            a1, b1 = (1 - p1 * p1) / (1 + p1 * p1), 2 * p1 / (1 + p1 * p1)
        else:
            a1, b1 = SR(z3.RealVal(str(U1S[u1][0]))), SR(z3.RealVal(str(U1S[u1][1])))
        a2, b2 = (1 - p2 * p2) / (1 + p2 * p2), 2 * p2 / (1 + p2 * p2)
        inp['params'] = (p1, p2)
        det = a1 * b2 - b1 * a2
        cx.assume(det.e > 0 if la != sw else det.e < 0)
        start = C + rot_apply(c, s, rx * a1, ry * b1)
        end = C + rot_apply(c, s, rx * a2, ry * b2)
        inp.update(C=C, u1=(a1, b1), u2=(a2, b2), det=det, dot=a1 * a2 + b1 * b2)
    else:
        M = symc('M')
        p1, k = symr('p1'), symr('k')
        if u1 == 'sym':
            a1, b1 = (1 - p1 * p1) / (1 + p1 * p1), 2 * p1 / (1 + p1 * p1)
        else:
            a1, b1 = SR(z3.RealVal(str(U1S[u1][0]))), SR(z3.RealVal(str(U1S[u1][1])))
        inp['params'] = (p1,)
        cx.assume(k.e > 1)
        w = rot_apply(c, s, rx * k * a1, ry * k * b1)
        start, end = M + w, M - w
        inp.update(C=M, u1=(a1, b1), u2=(-a1, -b1), k=k)
    inp.update(start=start, end=end)
    rad = SC(-rx if neg[0] else rx, -ry if neg[1] else ry)
    try:
        arc = P.Arc(start, rad, RotDeg(deg, c, s), la, sw, end)
    except NonFinite as e:
        e.inp = inp          # a square root of a negative number inside the constructor: NaN in the real library
        raise
    return arc, inp


def conc_arc_src(m, inp, la, sw, neg=(False, False)):
    st, en = mcval(m, inp['start']), mcval(m, inp['end'])
    rx, ry = mval(m, inp['rx']), mval(m, inp['ry'])
    return 'Arc(%r, %r, %r, %r, %r, %r)' % (st, complex(-rx if neg[0] else rx, -ry if neg[1] else ry), inp['deg'], la, sw, en)


REPLAY_F65 = '''
import math, cmath
a = %s
st, en, rot, fa, fs = a.start, a.end, a.rotation, a.large_arc, a.sweep
rx0, ry0 = %r
# independent F.6.5 / F.6.6
phi = math.radians(rot); c, s = math.cos(phi), math.sin(phi)
dx, dy = (st.real - en.real) / 2, (st.imag - en.imag) / 2
x1p, y1p = c * dx + s * dy, -s * dx + c * dy
rx, ry = abs(rx0), abs(ry0)
lam = x1p ** 2 / rx ** 2 + y1p ** 2 / ry ** 2
if lam > 1: rx, ry = math.sqrt(lam) * rx, math.sqrt(lam) * ry
num = rx ** 2 * ry ** 2 - rx ** 2 * y1p ** 2 - ry ** 2 * x1p ** 2
co = math.sqrt(max(0.0, num / (rx ** 2 * y1p ** 2 + ry ** 2 * x1p ** 2)))
if fa == fs: co = -co
cxp, cyp = co * rx * y1p / ry, -co * ry * x1p / rx
ctr = complex(c * cxp - s * cyp + (st.real + en.real) / 2, s * cxp + c * cyp + (st.imag + en.imag) / 2)
scale = 1 + abs(st) + abs(en) + rx + ry
bad = []
if any(v != v for v in (a.center.real, a.center.imag, a.theta, a.delta, a.point(0.5).real)): bad.append(('not-a-number', a.center, a.theta, a.delta, a.point(0.5)))
for tt in (0.3, 0.7):
    h = 1e-6
    fd = (a.point(tt + h) - a.point(tt - h)) / (2 * h)          # derivative(t) against a central difference of point(t)
    if abs(a.derivative(tt) - fd) > 1e-4 * (1 + abs(fd)): bad.append(('derivative', tt, a.derivative(tt), fd))
if abs(a.radius - complex(rx, ry)) > 1e-7 * scale: bad.append(('radius', a.radius, complex(rx, ry)))
if abs(a.center - ctr) > 1e-5 * scale and abs(lam - 1) > 1e-6: bad.append(('center', a.center, ctr))
if abs(a.point(0) - st) > 1e-5 * scale or abs(a.point(1) - en) > 1e-5 * scale: bad.append(('end points', a.point(0), a.point(1)))
if (a.delta > 0) != bool(fs) and abs(a.delta) > 1e-9: bad.append(('sweep direction', a.delta, fs))
if (abs(a.delta) > 180 + 1e-6) != bool(fa) and abs(abs(a.delta) - 180) > 1e-4: bad.append(('large_arc', a.delta, fa))
if not -180 - 1e-9 <= a.theta <= 180 + 1e-9: bad.append(('theta range', a.theta))
for t in (0.13, 0.5, 0.77):
    z = (a.point(t) - a.center) * cmath.exp(-1j * phi)
    if abs(z.real ** 2 / a.radius.real ** 2 + z.imag ** 2 / a.radius.imag ** 2 - 1) > 1e-6: bad.append(('not on ellipse', t, a.point(t)))
    for n in range(1, 9):
        ang = math.radians(a.theta + t * a.delta); k = math.radians(a.delta) ** n
        cs = [math.cos(ang), -math.sin(ang), -math.cos(ang), math.sin(ang)][n %% 4]
        sn = [math.sin(ang), math.cos(ang), -math.sin(ang), -math.cos(ang)][n %% 4]
        want = k * complex(a.radius.real * c * cs - a.radius.imag * s * sn, a.radius.real * s * cs + a.radius.imag * c * sn)
        if abs(a.derivative(t, n) - want) > 1e-6 * (1 + abs(want)): bad.append(('derivative order %%d' %% n, a.derivative(t, n), want))
for m_ in (1, 2, 3):
    for pieces in (list(a.as_cubic_curves(m_)), list(a.as_quad_curves(m_))):
        if abs(pieces[0].start - st) > 1e-9 or abs(pieces[-1].end - en) > 1e-9 or any(abs(p.end - q.start) > 1e-9 for p, q in zip(pieces, pieces[1:])):
            bad.append(('bezier approximation end points', m_))
if bad: REPRODUCED('%%r: %%r' %% (a, bad[:3]))
'''


def ang_val(x):
    return SR(x.d) if isinstance(x, Ang) else lift(x)


def ang_cs(x):
    """(cos, sin) of a stored theta/delta (Ang or one of the literal special values 0 / 180)"""
    if isinstance(x, Ang):
        return SR(x.c), SR(x.s)
    v = float(x)
    return lift(round(math.cos(math.radians(v)))), lift(round(math.sin(math.radians(v))))


def fam_param(R, rot, la, sw, neg=(False, False), case='fit', radii='2x1', u1='q1'):
    import svgpathtools.path as P
    install(P)
    R.bound(rotation=rot, large_arc=la, sweep=sw, negative_radii=neg, case=case, radii=str(RADII.get(radii, radii)), start_direction_in_unit_frame=str(U1S.get(u1, u1)),
            end_direction='rational parametrisation ((1-p^2)/(1+p^2), 2p/(1+p^2)), p symbolic (every direction but (-1,0))')
    R.stub('radians/degrees -> Angle domain', 'np.isclose/np.clip -> defining inequalities', 'acos -> range axioms')

    def run():
        arc, inp = mk_arc(rot, la, sw, neg, case, radii, u1)
        t = symr('t')
        p0, p1, pt = arc.point(0), arc.point(1), arc.point(t)
        bez = []
        if rot == '0' and (la, sw) == (False, True):
            try:
                bez = [(m_, list(arc.as_cubic_curves(m_)), list(arc.as_quad_curves(m_))) for m_ in (1, 2)]
            except (TypeError, ZeroDivisionError, NonFinite):
                bez = []      # an angle operation outside the Angle domain (literal theta = 180 plus a symbolic slice): not modelled
        return arc, inp, t, p0, p1, pt, bez

    for ctx, (kind, val) in explore(run, maxpaths=300):
        R.path(ctx)
        if kind != 'ok':
            done = False
            if isinstance(val, NonFinite) and hasattr(val, 'inp'):
                # the real constructor would produce NaN here: replay a model of this path
                from ..symx import check_sat as _cs
                r_, dt_, m_ = _cs(ctx, [zabs(v.e) <= 9 for v in (val.inp['C'].real, val.inp['C'].imag)], 20000)     # an infeasible path (entered through an undecided branch) is not an error
                if r_ == 'sat' and m_ is not None:
                    src = conc_arc_src(m_, val.inp, la, sw, neg)
                    done = R.direct_cex('constructor-stays-finite', {'cls': 'Arc F.6.5 conformance', 'inputs': {'arc': src},
                                                                     'script': REPLAY_F65 % (src, (mval(m_, val.inp['rx']) * (-1 if neg[0] else 1), mval(m_, val.inp['ry']) * (-1 if neg[1] else 1)))})
            if not done:
                R.unexpected(ctx, 'unexpected %s %r' % (kind, val))
            continue
        arc, inp, t, p0, p1, pt, bez = val
        rx, ry = inp['rx'], inp['ry']
        c, s = SR(z3.RealVal(str(inp['c']))), SR(z3.RealVal(str(inp['s'])))
        (a1, b1), (a2, b2) = inp['u1'], inp['u2']

        def cex(m):
            return {'cls': 'Arc F.6.5 conformance', 'inputs': {'arc': conc_arc_src(m, inp, la, sw, neg)},
                    'script': REPLAY_F65 % (conc_arc_src(m, inp, la, sw, neg), (mval(m, rx) * (-1 if neg[0] else 1), mval(m, ry) * (-1 if neg[1] else 1)))}
        robust = [zabs(v.e) <= 9 for v in (inp['C'].real, inp['C'].imag)]
        if case == 'fit':
            # away from the np.isclose(radicand, 0) window and from exact diameters
            robust += [zabs(inp['det'].e) >= 0.2]
            away = [zabs(inp['det'].e) >= 1e-3]
        else:
            # comfortably too small radii, or radii too small by a few parts per million (tolerance windows around Lambda = 1)
            robust += [z3.Or(z3.And(inp['k'].e <= 3, inp['k'].e >= 1.2), z3.And(inp['k'].e >= 1.000001, inp['k'].e <= 1.000004))]
            away = []
        Rr, Ri = lift(arc.radius.real), lift(arc.radius.imag)
        k = inp.get('k', lift(1))
        R.ob('radius.F.6.6', ctx, z3.And(Rr.e == (rx * k).e, Ri.e == (ry * k).e), cex=cex, robust=robust, timeout_ms=60000)
        R.ob('center.F.6.5', ctx, ceq(arc.center, inp['C']), extra=away, cex=cex, robust=robust, timeout_ms=90000)
        R.ob('point(0)=start', ctx, ceq(p0, inp['start']), extra=away, cex=cex, robust=robust, timeout_ms=90000)
        R.ob('point(1)=end', ctx, ceq(p1, inp['end']), extra=away, cex=cex, robust=robust, timeout_ms=90000)
        d = pt - arc.center
        xr = c * d.real + s * d.imag
        yr = c * d.imag - s * d.real
        R.ob('point(t)-on-ellipse', ctx, (xr * xr * Ri * Ri + yr * yr * Rr * Rr).e == (Rr * Rr * Ri * Ri).e, cex=cex, robust=robust, timeout_ms=90000)
        tc, ts = ang_cs(arc.theta)
        dc, ds = ang_cs(arc.delta)
        R.ob('theta=angle-of-start', ctx, z3.And(tc.e == a1.e, ts.e == b1.e), extra=away, cex=cex, robust=robust, timeout_ms=90000)
        if case == 'fit':
            R.ob('delta=angle-start-to-end', ctx, z3.And(dc.e == inp['dot'].e, ds.e == inp['det'].e), extra=away, cex=cex, robust=robust, timeout_ms=90000)
        dv, tv = ang_val(arc.delta), ang_val(arc.theta)
        R.ob('sweep-direction', ctx, (dv.e > 0) if sw else (dv.e < 0), extra=away, cex=cex, robust=robust, timeout_ms=60000)
        R.ob('large-arc', ctx, (zabs(dv.e) >= 180) if la else (zabs(dv.e) <= 180), extra=away, cex=cex, robust=robust, timeout_ms=60000)
        R.ob('theta-range', ctx, z3.And(tv.e >= -180, tv.e <= 180, zabs(dv.e) <= 360), cex=cex, robust=robust, timeout_ms=60000)
        for m_, cub, quad in bez:
            okb = []
            for pieces in (cub, quad):
                okb += [ceq(pieces[0].start, inp['start']), ceq(pieces[-1].end, inp['end'])] + [ceq(p_.end, q_.start) for p_, q_ in zip(pieces, pieces[1:])]
                okb.append(z3.BoolVal(len(pieces) == m_))
            R.ob('bezier-approximation-end-points.m%d' % m_, ctx, z3.And(*okb), cex=cex, robust=robust, timeout_ms=60000)
        if R.paths % 4 == 1:
            R.sample({'rotation': rot, 'flags': (la, sw), 'case': case, 'decisions': ''.join('TF'[not d_[0]] for d_ in ctx.decisions[:ctx.pos])})


def fam_derivative(R, rot):
    """derivative(t, n), n = 1..8, on an arc whose parameterisation is given directly (free theta, delta, centre)"""
    import svgpathtools.path as P
    install(P)
    R.bound(rotation=rot, orders='1..8')
    R.stub('Arc._parameterize -> installs free theta/delta (degree values with unit pairs) and a free centre')
    orig = P.Arc._parameterize

    def fake(self):
        cx = Ctx.cur
        th, dl = symr('theta'), symr('delta')
        c1, s1, c2, s2 = cx.fresh('ct'), cx.fresh('st'), cx.fresh('cd'), cx.fresh('sd')
        cx.assume(c1 * c1 + s1 * s1 == 1, c2 * c2 + s2 * s2 == 1)
        self.theta = Ang(th.e, c1, s1, 'deg')
        self.delta = Ang(dl.e, c2, s2, 'deg')
        self.center = symc('ctr')

    def run():
        P.Arc._parameterize = fake
        try:
            deg, c, s = ROTATIONS[rot]
            rx, ry = symr('rx'), symr('ry')
            Ctx.cur.assume(rx.e > 0, ry.e > 0)
            st_, en_ = symc('st'), symc('en')
            Ctx.cur.assume(z3.Not(ceq(st_, en_)))
            arc = P.Arc(st_, SC(rx, ry), RotDeg(deg, c, s), True, True, en_)
            t = symr('t')
            # one shared angle a = theta + t*delta (fresh unit pair per product): evaluate derivative orders
            outs = []
            for n in range(1, 9):
                outs.append((n, arc.derivative(t, n)))
            return arc, rx, ry, t, outs
        finally:
            P.Arc._parameterize = orig

    for ctx, (kind, val) in explore(run, maxpaths=50):
        R.path(ctx, nontrivial=True)
        if kind != 'ok':
            R.unexpected(ctx, 'unexpected %s %r' % (kind, val))
            continue
        arc, rx, ry, t, outs = val
        deg, c, s = ROTATIONS[rot]
        c, s = SR(z3.RealVal(str(c))), SR(z3.RealVal(str(s)))
        # the angle a = theta + t*delta the code uses (products of the same angle by the same t are memoised: same atoms)
        a_ = arc.theta + t * arc.delta
        ca, sa = SR(a_.c), SR(a_.s)
        k = SR(arc.delta.d * z3.RealVal(repr(math.pi)) / 180)
        for n, val_n in outs:
            pat = [(ca, sa), (-sa, ca), (-ca, -sa), (sa, -ca)][n % 4]       # n-th derivative pattern of (cos a, sin a)
            kn = k ** n
            wantx = kn * (rx * c * pat[0] - ry * s * pat[1])
            wanty = kn * (rx * s * pat[0] + ry * c * pat[1])

            def cex(m, n=n):
                return {'cls': 'Arc.derivative order n with n mod 4 = %d' % (n % 4), 'inputs': {'rotation': rot, 'order': n},
                        'script': REPLAY_F65 % ('Arc(0j, 2+1j, %r, True, True, 1+1.5j)' % ROTATIONS[rot][0], (2.0, 1.0))}
            R.ob('derivative.order%d' % n, ctx, ceq(val_n, SC(wantx, wanty)), cex=cex, timeout_ms=60000,
                 robust=[arc.delta.d >= 30, arc.delta.d <= 300, rx.e == 2, ry.e == 1])
        R.sample({'rotation': rot, 'orders': [n for n, _ in outs]})


def fam_reversed_cropped(R, rot, la, sw):
    import svgpathtools.path as P
    install(P)
    R.bound(rotation=rot, large_arc=la, sweep=sw)

    def run():
        arc, inp = mk_arc(rot, la, sw, u1='q2')
        rv = arc.reversed()
        return arc, inp, rv

    for ctx, (kind, val) in explore(run, maxpaths=400):
        R.path(ctx)
        if kind != 'ok':
            R.unexpected(ctx, 'unexpected %s %r' % (kind, val))
            continue
        arc, inp, rv = val
        rx, ry = inp['rx'], inp['ry']
        away = [zabs(inp['det'].e) >= 1e-3]

        def cex(m):
            return {'cls': 'Arc.reversed', 'inputs': {'arc': conc_arc_src(m, inp, la, sw)}, 'script': REPLAY_REV % conc_arc_src(m, inp, la, sw)}
        robust = [zabs(v.e) <= 9 for v in (inp['C'].real, inp['C'].imag)] + [zabs(inp['det'].e) >= 0.2]
        R.ob('reversed.same-ellipse', ctx, z3.And(ceq(rv.center, arc.center), ceq(rv.radius, arc.radius)), extra=away, cex=cex, robust=robust, timeout_ms=90000)
        dc, ds = ang_cs(arc.delta)
        rc, rs = ang_cs(rv.delta)
        R.ob('reversed.delta', ctx, z3.And(rc.e == dc.e, rs.e == -ds.e, z3.BoolVal(rv.sweep == (not arc.sweep) and rv.large_arc == arc.large_arc)),
             extra=away, cex=cex, robust=robust, timeout_ms=90000)
        # theta' = theta + delta (mod 360): compare as points of the unit circle: (cos,sin)(theta') = angle of the END point
        tc, ts = ang_cs(rv.theta)
        (a2, b2) = inp['u2']
        R.ob('reversed.theta=angle-of-end', ctx, z3.And(tc.e == a2.e, ts.e == b2.e), extra=away, cex=cex, robust=robust, timeout_ms=90000)
        if R.paths % 4 == 1:
            R.sample({'rotation': rot, 'flags': (la, sw)})


REPLAY_REV = '''
a = %s
r = a.reversed()
for u in (0.0, 0.21, 0.5, 0.83, 1.0):
    if abs(r.point(u) - a.point(1 - u)) > 1e-6 * (1 + abs(a.start) + abs(a.radius)): REPRODUCED('%%r.reversed().point(%%r) = %%r, point(%%r) = %%r' %% (a, u, r.point(u), 1 - u, a.point(1 - u)))
'''


REPLAY_CROP = '''
a = %s
for (t0, t1) in ((0.0, 0.75), (0.1, 0.9), (0.25, 1.0), (0.3, 0.4)):
    c = a.cropped(t0, t1)
    for u in (0.0, 0.3, 0.5, 0.8, 1.0):
        if abs(c.point(u) - a.point(t0 + u * (t1 - t0))) > 1e-6 * (1 + abs(a.start) + abs(a.radius)):
            REPRODUCED('%%r.cropped(%%r,%%r).point(%%r) = %%r but point(%%r) = %%r' %% (a, t0, t1, u, c.point(u), t0 + u * (t1 - t0), a.point(t0 + u * (t1 - t0))))
for t in (0.125, 0.25, 0.4, 0.5, 0.8):
    l, r = a.split(t)
    if abs(l.end - r.start) > 1e-9 or abs(l.end - a.point(t)) > 1e-6: REPRODUCED('split pieces do not meet at point(t)')
    for u in (0.0, 0.3, 0.5, 0.8, 1.0):
        if abs(l.point(u) - a.point(u * t)) > 1e-6 * (1 + abs(a.start) + abs(a.radius)) or abs(r.point(u) - a.point(t + u * (1 - t))) > 1e-6 * (1 + abs(a.start) + abs(a.radius)):
            REPRODUCED('%%r.split(%%r): piece points %%r / %%r, expected %%r / %%r' %% (a, t, l.point(u), r.point(u), a.point(u * t), a.point(t + u * (1 - t))))
'''


def fam_cropped_flags(R, sw, via='cropped'):
    """Arc.cropped: the new large_arc flag is |delta*(t1-t0)| > 180; sweep, radii, rotation kept; end points = point(t0), point(t1)."""
    import svgpathtools.path as P
    install(P)
    R.bound(sweep=sw, via=via)
    R.stub('Arc._parameterize -> free theta/delta/centre; Arc.point -> uninterpreted')
    orig, origpoint = P.Arc._parameterize, P.Arc.point
    made = []

    def fake(self):
        cx = Ctx.cur
        dl = symr('delta%d' % len(made))
        c2, s2 = cx.fresh('cd'), cx.fresh('sd')
        cx.assume(c2 * c2 + s2 * s2 == 1, dl.e != 0, zabs(dl.e) <= 360, (dl.e > 0) if sw else (dl.e < 0))
        self.theta = Ang(symr('theta%d' % len(made)).e, cx.fresh('ct'), cx.fresh('st'), 'deg')
        self.delta = Ang(dl.e, c2, s2, 'deg')
        self.center = symc('ctr')
        made.append(self)

    fx = z3.Function('px', z3.RealSort(), z3.RealSort())
    fy = z3.Function('py', z3.RealSort(), z3.RealSort())

    def run():
        del made[:]
        P.Arc._parameterize = fake
        P.Arc.point = lambda self, t: SC(SR(fx(lift(t).e)), SR(fy(lift(t).e)))
        try:
            rx, ry = symr('rx'), symr('ry')
            Ctx.cur.assume(rx.e > 0, ry.e > 0)
            st_, en_ = symc('st'), symc('en')
            Ctx.cur.assume(z3.Not(ceq(st_, en_)))
            a = P.Arc(st_, SC(rx, ry), 30.0, True, sw, en_)
            t0, t1 = symr('t0'), symr('t1')
            Ctx.cur.assume(t0.e >= 0, t0.e < t1.e, t1.e <= 1)
            Ctx.cur.assume(z3.Or(fx(t0.e) != fx(t1.e), fy(t0.e) != fy(t1.e)))      # distinct crop points (Arc asserts start != end)
            if via == 'cropped':
                c = a.cropped(t0, t1)
            else:
                # split(t): the piece before t is the crop (0, t), the piece after it the crop (t, 1)
                if via == 'split-first':
                    Ctx.cur.assume(t0.e == 0, t1.e < 1, z3.Or(fx(t1.e) != fx(z3.RealVal(1)), fy(t1.e) != fy(z3.RealVal(1))))
                    c = a.split(t1)[0]
                else:
                    Ctx.cur.assume(t1.e == 1, t0.e > 0, z3.Or(fx(t0.e) != fx(z3.RealVal(0)), fy(t0.e) != fy(z3.RealVal(0))))
                    c = a.split(t0)[1]
            return a, c, t0, t1
        finally:
            P.Arc._parameterize, P.Arc.point = orig, origpoint

    for ctx, (kind, val) in explore(run, maxpaths=50):
        R.path(ctx)
        if kind != 'ok':
            R.unexpected(ctx, 'unexpected %s %r' % (kind, val))
            continue
        a, c, t0, t1 = val
        span = zabs(a.delta.d * (t1.e - t0.e))

        def cex(m):
            return {'cls': 'Arc.cropped large_arc flag' if via == 'cropped' else 'Arc.split pieces', 'inputs': {'sweep': sw, 'delta': mval(m, SR(a.delta.d)), 't0': mval(m, t0), 't1': mval(m, t1)},
                    'script': REPLAY_CROP % ('Arc(2+0j, 2+2j, 0, True, %r, 1+1.7320508075688772j)' % sw)}
        R.ob('cropped.large_arc-iff-span>180', ctx, z3.And(z3.Implies(span > 180, z3.BoolVal(bool(c.large_arc))), z3.Implies(span < 180, z3.BoolVal(not c.large_arc))), cex=cex)
        R.ob('cropped.keeps-sweep-radius-rotation', ctx, z3.And(z3.BoolVal(c.sweep == a.sweep and c.rotation == a.rotation), ceq(c.radius, a.radius)), cex=cex)
        R.ob('cropped.end-points', ctx, z3.And(ceq(c.start, SC(SR(fx(t0.e)), SR(fy(t0.e)))), ceq(c.end, SC(SR(fx(t1.e)), SR(fy(t1.e))))), cex=cex)
        R.sample({'sweep': sw, 'large_arc_result': bool(c.large_arc)})


def families(tier):
    M = 'vf.props.c04'
    fams = []
    rots = ['0', 'p37', '180', '90'] if tier == 'quick' else list(ROTATIONS)
    for rot in rots:
        for la, sw in itertools.product([False, True], repeat=2):
            fams.append(('param-%s-%d%d' % (rot, la, sw), M, 'fam_param', {'rot': rot, 'la': la, 'sw': sw}))
    fams.append(('param-p37-01-negradii', M, 'fam_param', {'rot': 'p37', 'la': False, 'sw': True, 'neg': (True, True)}))
    for rot in (['0', 'p37'] if tier == 'quick' else list(ROTATIONS)):
        for la, sw in itertools.product([False, True], repeat=2):
            fams.append(('scale-%s-%d%d' % (rot, la, sw), M, 'fam_param', {'rot': rot, 'la': la, 'sw': sw, 'case': 'scale'}))
    for rot in (['0', 'p37', '90'] if tier == 'quick' else list(ROTATIONS)):
        fams.append(('derivative-%s' % rot, M, 'fam_derivative', {'rot': rot}))
    for rot in (['p37'] if tier == 'quick' else ['0', 'p37', '180', 'm67']):
        for la, sw in itertools.product([False, True], repeat=2):
            fams.append(('reversed-%s-%d%d' % (rot, la, sw), M, 'fam_reversed_cropped', {'rot': rot, 'la': la, 'sw': sw}))
    for sw in (False, True):
        fams.append(('cropped-flags-sweep%d' % sw, M, 'fam_cropped_flags', {'sw': sw}))
        for via in ('split-first', 'split-second'):
            fams.append(('%s-flags-sweep%d' % (via, sw), M, 'fam_cropped_flags', {'sw': sw, 'via': via}))
    return fams
