"""C10 -- translated / rotated / scaled / transform commute with point()."""
import itertools

import numpy as np
import z3

from ..symx import (SR, SC, SB, explore, symc, symr, ceq, req, mval, mcval, Ctx, lift, Abort, tosc)
from ..stubs import NPProxy, patched
from ..ang import ang_of_degrees
from .c03 import bern, REPLAY_ORACLE

META = {
    'explanation': (
        'Bezier segments of each order with symbolic control points: translated(z0), rotated(degs, origin / default origin), '
        'scaled(sx[,sy],origin) and transform(seg, M) (M a symbolic affine 3x3 object matrix, identity shortcut explored) are run '
        'for real and z3 (QF_NRA) shows op(seg).point(t) = OP(point(t)) for all values (the rotation angle is a unit pair (c,s)).  '
        'Arc: non-uniform scaled() must raise.  Joints: transform_segments_together runs on paths of n<=3 segments for every '
        'coincidence pattern incl. the closing joint; the end/start terms of each previously coinciding joint are abstracted to '
        'uninterpreted arithmetic (every +,-,*,/ an uninterpreted function) and z3 (QF_UF) decides whether they are equal for ANY '
        'arithmetic, IEEE included; a sat answer is replayed on doubles.  Arc branch of transform(): executed with a symbolic affine matrix '
        '(classes: similarity, diagonal, shear, reflection, general), symbolic radii/end points; inv/det closed forms, eigh by contract; '
        'obligations (i) new radii/rotation = spectral form of eigh\'s output, (ii) the matrix handed to eigh pulled back by A is the old '
        'ellipse\'s quadratic form, (iii) end points mapped, large_arc kept, sweep flipped iff det < 0 -- equalities through z3-checked certificates.'),
    'outside': ['Arc branch of transform(): rotations with rational cos/sin only; the step from (end points, quadratic form, flags) to point(t) rests on C04 '
                'and on the contract of numpy.linalg.eigh', 'numerical quality; non-invertible matrices'],
    'assumptions': ['radians/exp of the rotation angle: unit pair c^2+s^2=1 shared by code and oracle'],
}

NAMES = {1: 'Line', 2: 'QuadraticBezier', 3: 'CubicBezier'}


def cls_of(deg):
    from svgpathtools.path import Line, QuadraticBezier, CubicBezier
    return {1: Line, 2: QuadraticBezier, 3: CubicBezier}[deg]


REPLAY_OP = REPLAY_ORACLE + '''
import cmath, math
import numpy as np
from svgpathtools.path import transform
ps = %r; t = %r
seg = %s(*ps)
op = %r; a = %r
pt = bernF(ps, t)
if op == 'translated':
    got = seg.translated(a['z0']).point(t); want = pt + a['z0']
elif op == 'rotated':
    got = seg.rotated(a['degs'], a['origin']).point(t); want = cmath.exp(1j*math.radians(a['degs']))*(pt - a['origin']) + a['origin']
elif op == 'rotated-default':
    o = bernF(ps, 0.5)
    got = seg.rotated(a['degs']).point(t); want = cmath.exp(1j*math.radians(a['degs']))*(pt - o) + o
elif op == 'scaled1':
    got = seg.scaled(a['sx'], origin=a['origin']).point(t); want = a['sx']*(pt - a['origin']) + a['origin']
elif op == 'scaled2':
    d = pt - a['origin']
    got = seg.scaled(a['sx'], a['sy'], origin=a['origin']).point(t); want = complex(a['sx']*d.real, a['sy']*d.imag) + a['origin']
elif op == 'scaled-default-origin':
    got = seg.scaled(a['sx'], a['sy']).point(t); want = complex(a['sx']*pt.real, a['sy']*pt.imag)
elif op == 'transform':
    M = np.array(a['M'], dtype=float)
    got = transform(seg, M).point(t)
    v = M.dot(np.array([[pt.real], [pt.imag], [1.0]])); want = complex(v[0, 0], v[1, 0])
if abs(got - want) > 1e-7 * (1 + abs(want) + max(abs(p) for p in ps)):
    REPRODUCED('%s.%%s%%r: point(t) of the result is %%r, transformed point is %%r' %% (op, a, got, want))
'''


def fam_bezier_ops(R, deg):
    import svgpathtools.path as P
    from svgpathtools.path import transform
    R.bound(degree=deg)
    P.np = NPProxy()

    def run():
        ps = [symc('p%d' % i) for i in range(deg + 1)]
        t = symr('t')
        seg = cls_of(deg)(*ps)
        pt = bern(ps, t)
        out = []
        z0 = symc('z0')
        out.append(('translated', {'z0': z0}, seg.translated(z0).point(t), pt + z0))
        degs = symr('degs')
        o = symc('o')
        rot = seg.rotated(degs, o)
        a = ang_of_degrees(degs)
        R_ = SC(SR(a.c), SR(a.s))
        out.append(('rotated', {'degs': degs, 'origin': o}, rot.point(t), R_ * (pt - o) + o))
        rot0 = seg.rotated(degs)
        o5 = bern(ps, 0.5)
        out.append(('rotated-default', {'degs': degs}, rot0.point(t), R_ * (pt - o5) + o5))
        sx, sy = symr('sx'), symr('sy')
        out.append(('scaled1', {'sx': sx, 'origin': o}, seg.scaled(sx, origin=o).point(t), (pt - o) * sx + o))
        d = pt - o
        out.append(('scaled2', {'sx': sx, 'sy': sy, 'origin': o}, seg.scaled(sx, sy, origin=o).point(t),
                    SC(sx * d.real, sy * d.imag) + o))
        out.append(('scaled-default-origin', {'sx': sx, 'sy': sy}, seg.scaled(sx, sy).point(t), SC(sx * pt.real, sy * pt.imag)))
        M = np.empty((3, 3), dtype=object)
        names = [['m00', 'm01', 'm02'], ['m10', 'm11', 'm12']]
        for i in range(2):
            for j in range(3):
                M[i, j] = symr(names[i][j])
        M[2, 0], M[2, 1], M[2, 2] = 0.0, 0.0, 1.0
        tr = transform(seg, M)
        out.append(('transform', {'M': M}, tr.point(t),
                    SC(M[0, 0] * pt.real + M[0, 1] * pt.imag + M[0, 2], M[1, 0] * pt.real + M[1, 1] * pt.imag + M[1, 2])))
        return ps, t, out

    for ctx, (kind, val) in explore(run, maxpaths=400):
        R.path(ctx)
        if kind != 'ok':
            R.error('unexpected %s %r' % (kind, val))
            continue
        ps, t, out = val
        for name, args, got, want in out:
            def cex(m, name=name, args=args):
                a = {}
                for k, v in args.items():
                    if isinstance(v, SC):
                        a[k] = mcval(m, v)
                    elif isinstance(v, SR):
                        a[k] = mval(m, v)
                    else:
                        a[k] = [[mval(m, lift(v[i, j])) for j in range(3)] for i in range(3)]
                pts = [mcval(m, p) for p in ps]
                return {'cls': '%s.%s' % (NAMES[deg], name), 'inputs': {'ps': str(pts), 't': mval(m, t), 'args': str(a)},
                        'script': REPLAY_OP % (pts, mval(m, t), NAMES[deg], name, a, NAMES[deg])}
            g_, w_ = tosc(got), tosc(want)
            from ..symx import zabs as _zabs
            margin = [z3.Or(_zabs(g_.real.e - w_.real.e) >= 1e-4, _zabs(g_.imag.e - w_.imag.e) >= 1e-4)] + \
                     [z3.And(p.real.e >= -50, p.real.e <= 50, p.imag.e >= -50, p.imag.e <= 50) for p in ps] + [t.e >= 0, t.e <= 1]
            R.ob('%s.%s' % (NAMES[deg], name), ctx, ceq(got, want), cex=cex, timeout_ms=60000, robust=margin)
        R.sample({'class': NAMES[deg], 'ops': [o[0] for o in out], 'decisions': ''.join('TF'[not d[0]] for d in ctx.decisions[:ctx.pos])})


def fam_arc_scale_refusal(R):
    """non-uniform scaled() of an Arc is refused, never silently wrong."""
    import svgpathtools.path as P
    from svgpathtools.path import Arc
    R.stub('Arc._parameterize -> no-op (only the refusal logic of scale() is examined)')
    P.np = NPProxy()
    orig = Arc._parameterize

    def run():
        Arc._parameterize = lambda self: None
        try:
            a = Arc(0j, 2 + 1j, 30.0, False, True, 1 + 1j)
            sx, sy = symr('sx'), symr('sy')
            Ctx.cur.assume(sx.e != 0, sy.e != 0)
            try:
                r = a.scaled(sx, sy)
                return sx, sy, 'returned'
            except Exception as e:
                return sx, sy, 'raised'
        finally:
            Arc._parameterize = orig

    for ctx, (kind, val) in explore(run, maxpaths=50):
        R.path(ctx)
        if kind != 'ok':
            R.error('unexpected %s %r' % (kind, val))
            continue
        sx, sy, what = val

        def cex(m):
            return {'cls': 'Arc.scaled non-uniform accepted', 'inputs': {'sx': mval(m, sx), 'sy': mval(m, sy)}, 'script': '''
a = Arc(0j, 2+1j, 30.0, False, True, 1+1j)
sx, sy = %r, %r
try:
    b = a.scaled(sx, sy)
except Exception:
    NOT_REPRODUCED()
t = 0.37
p = a.point(t); want = complex(sx*p.real, sy*p.imag)
if sx != sy and min(abs(b.point(u) - want) for u in np.linspace(0, 1, 20001)) > 1e-3:
    REPRODUCED('Arc.scaled(%%r,%%r) is accepted but the scaled image of point(%%r) is not on the result' %% (sx, sy, t))
''' % (mval(m, sx), mval(m, sy))}
        if what == 'returned':
            R.ob('arc.scaled.returns-only-if-uniform', ctx, sx.e == sy.e, cex=cex,
                 robust=[sx.e == 2, sy.e == -2])
        else:
            R.ob('arc.scaled.raises-only-if-nonuniform', ctx, sx.e != sy.e)
        R.sample({'sx?=sy': what})


def fam_arc_ops_structure(R):
    """translated/rotated/uniform scaled of an Arc: the new Arc is built from
    the transformed end points, the same (scaled) radii, rotation (+degs) and
    flags; default rotation origin = centre.  _parameterize is replaced by a
    stub that installs a free symbolic centre (the arc geometry itself is C04)."""
    import svgpathtools.path as P
    from svgpathtools.path import Arc
    P.np = NPProxy()
    R.stub('Arc._parameterize -> installs a free symbolic centre/theta/delta', 'Arc.point -> uninterpreted')
    orig = Arc._parameterize
    origpoint = Arc.point
    cnt = [0]

    def fake_param(self):
        cnt[0] += 1
        self.center = symc('ctr%d' % cnt[0])
        self.theta = 10.0
        self.delta = 20.0

    def run():
        cnt[0] = 0
        Arc._parameterize = fake_param
        Arc.point = lambda self, t: symc('midpoint')
        try:
            st, en = symc('st'), symc('en')
            rx, ry, rot = symr('rx'), symr('ry'), symr('rot')
            c = Ctx.cur
            c.assume(rx.e > 0, ry.e > 0, z3.Not(ceq(st, en)))
            a = Arc(st, SC(rx, ry), rot, True, False, en)
            ctr = a.center
            out = []
            z0 = symc('z0')
            b = a.translated(z0)
            out.append(('translated', b, st + z0, en + z0, SC(rx, ry), rot))
            degs, o = symr('degs'), symc('o')
            ang = ang_of_degrees(degs)
            R_ = SC(SR(ang.c), SR(ang.s))
            b = a.rotated(degs, o)
            out.append(('rotated', b, R_ * (st - o) + o, R_ * (en - o) + o, SC(rx, ry), rot + degs))
            b = a.rotated(degs)
            out.append(('rotated-default-origin', b, R_ * (st - ctr) + ctr, R_ * (en - ctr) + ctr, SC(rx, ry), rot + degs))
            sx = symr('sx')
            c.assume(sx.e != 0)
            b = a.scaled(sx, origin=o)
            asx = SR(z3.If(sx.e >= 0, sx.e, -sx.e))
            out.append(('scaled-uniform', b, (st - o) * sx + o, (en - o) * sx + o, SC(asx * rx, asx * ry), rot))
            b = a.scaled(sx, sx, origin=o)
            out.append(('scaled-uniform-sx=sy', b, (st - o) * sx + o, (en - o) * sx + o, SC(asx * rx, asx * ry), rot))
            return a, out
        finally:
            Arc._parameterize = orig
            Arc.point = origpoint

    for ctx, (kind, val) in explore(run, maxpaths=400):
        R.path(ctx)
        if kind != 'ok':
            R.error('unexpected %s %r' % (kind, val))
            continue
        a, out = val
        for name, b, st, en, rad, rot in out:
            def cex(m, name=name):
                return {'cls': 'Arc.%s' % name, 'inputs': {'model': str(m)[:300]}, 'script': REPLAY_ARCOP % name}
            brot = b.rotation if isinstance(b.rotation, (SR, int, float)) else SR(b.rotation.d)
            claim = z3.And(ceq(b.start, st), ceq(b.end, en), ceq(b.radius, rad), req(brot, rot),
                           z3.BoolVal(b.large_arc == a.large_arc and b.sweep == a.sweep))
            R.ob('arc.%s' % name, ctx, claim, cex=cex)
        R.sample({'ops': [o[0] for o in out]})


REPLAY_ARCOP = '''
import cmath, math, random
name = %r
rnd = random.Random(3)
arcs = [Arc(3+0j, 3+2j, 0, False, True, -3+0j), Arc(1+1j, 2+1j, 25.0, True, False, 3+2j), Arc(0j, 1+3j, -40.0, False, False, 2-1j)]
for a in arcs:
    for trial in range(6):
        t = rnd.random(); z0 = complex(rnd.uniform(-5, 5), rnd.uniform(-5, 5)); degs = rnd.uniform(-170, 170); sx = rnd.choice([-2.5, 0.5, 3.0])
        p = a.point(t); rot = cmath.exp(1j*math.radians(degs))
        cases = {'translated': (lambda: a.translated(z0), p + z0),
                 'rotated': (lambda: a.rotated(degs, z0), rot*(p - z0) + z0),
                 'rotated-default-origin': (lambda: a.rotated(degs), rot*(p - a.center) + a.center),
                 'scaled-uniform': (lambda: a.scaled(sx, origin=z0), sx*(p - z0) + z0),
                 'scaled-uniform-sx=sy': (lambda: a.scaled(sx, sx, origin=z0), sx*(p - z0) + z0)}
        f, want = cases[name]
        got = f().point(t)
        if abs(got - want) > 1e-6 * (1 + abs(want)):
            REPRODUCED('%%s of %%r: point(%%r) is %%r, transformed point is %%r' %% (name, a, t, got, want))
'''


# ----------------------------------------------------------------------------
# joints: uninterpreted-arithmetic abstraction
# ----------------------------------------------------------------------------
_UF = {}


def _uf(name, arity):
    k = (name, arity)
    if k not in _UF:
        _UF[k] = z3.Function('u_' + name, *([z3.RealSort()] * (arity + 1)))
    return _UF[k]


def uf_abstract(e, memo=None):
    """replace every arithmetic operator of a real term by an uninterpreted
    function (binary, left-nested in the order the term was built)."""
    if memo is None:
        memo = {}
    k = e.get_id()
    if k in memo:
        return memo[k]
    if z3.is_const(e):
        r = e
    else:
        ch = [uf_abstract(c, memo) for c in e.children()]
        kind = e.decl().kind()
        nm = {z3.Z3_OP_ADD: 'add', z3.Z3_OP_SUB: 'sub', z3.Z3_OP_MUL: 'mul', z3.Z3_OP_DIV: 'div',
              z3.Z3_OP_UMINUS: 'neg', z3.Z3_OP_ITE: None}.get(kind, 'op%d' % kind)
        if kind == z3.Z3_OP_ITE:
            r = z3.If(e.arg(0), ch[1], ch[2])
        elif len(ch) == 1:
            r = _uf(nm, 1)(ch[0])
        else:
            r = ch[0]
            for c in ch[1:]:
                r = _uf(nm, 2)(r, c)
    memo[k] = r
    return r


KIND = 'LQC'


def mk(kind, i, start=None):
    pts = [symc('s%d_%d' % (i, j)) for j in range(4)]
    if start is not None:
        pts[0] = start
    C = cls_of('LQC'.index(kind) + 1)
    return C(*([pts[0], pts[3]] if kind == 'L' else [pts[0], pts[1], pts[3]] if kind == 'Q' else pts))


REPLAY_JOINT = '''
import random, itertools
kinds = %r; joined = %r; op = %r
rnd = random.Random(7)
def rc(): return complex(rnd.uniform(-100, 100), rnd.uniform(-100, 100))
bad = None
for trial in range(400):
    segs = []
    for i, k in enumerate(kinds):
        n = {'L': 2, 'Q': 3, 'C': 4}[k]
        pts = [rc() for _ in range(n)]
        if i > 0 and joined[i-1]: pts[0] = segs[-1].end
        if i == len(kinds) - 1 and joined[-1]: pts[-1] = segs[0].start if segs else pts[0]
        segs.append(bpoints2bezier(pts))
    p = Path(*segs)
    if op == 'translated': q = p.translated(rc())
    elif op == 'rotated': q = p.rotated(rnd.uniform(-180, 180), rc())
    elif op == 'scaled': q = p.scaled(rnd.uniform(0.1, 3), rnd.uniform(0.1, 3), origin=rc())
    elif op == 'scaled1': q = p.scaled(rnd.uniform(0.1, 3))
    else:
        M = np.array([[rnd.uniform(-2, 2), rnd.uniform(-2, 2), rnd.uniform(-9, 9)], [rnd.uniform(-2, 2), rnd.uniform(-2, 2), rnd.uniform(-9, 9)], [0, 0, 1]])
        q = transform(p, M)
    n = len(kinds)
    for i in range(n):
        if joined[i] and q[i].end != q[(i+1) %% n].start:
            bad = (i, p, q); break
    if q.start != q[0].start or q.end != q[-1].end or (all(joined) and not q.isclosed()):
        REPRODUCED('%%s: Path.start/end/isclosed of the result disagree with its segments: start %%r vs %%r, end %%r vs %%r, closed %%r' %% (op, q.start, q[0].start, q.end, q[-1].end, q.isclosed() if q.iscontinuous() else None))
    if bad: break
if bad:
    i, p, q = bad
    REPRODUCED('%%s: joint %%d coincided exactly before (%%r) but not after: %%r vs %%r' %% (op, i, p[i].end, q[i].end, q[(i+1) %% len(q)].start))
'''


REPLAY_NEARJOINT = '''
import numpy as np
from svgpathtools.path import transform
op = %r
p = Path(Line(0j, 1300+700j), CubicBezier(1300.004+700j, 1500+900j, 1700+500j, 2000+650.003j), Line(2000+650j, 5+0j))
M = np.array([[1.1, 0.2, 3.0], [-0.3, 0.9, 1.0], [0.0, 0.0, 1.0]])
f = {'translated': lambda x: x.translated(3+4j), 'rotated': lambda x: x.rotated(33.0, 10+10j), 'scaled': lambda x: x.scaled(1.5, 0.75, origin=1+1j),
     'scaled1': lambda x: x.scaled(1.5), 'transform': lambda x: transform(x, M)}[op]
q = f(p)
for i, s in enumerate(p):
    a = f(s)
    for nm in ('start', 'end'):
        if abs(getattr(q[i], nm) - getattr(a, nm)) > 1e-9:
            REPRODUCED('%%s of a path moves the %%s of segment %%d from %%r to %%r although the neighbouring segment does not start there' %% (op, nm, i, getattr(a, nm), getattr(q[i], nm)))
if q.isclosed() != p.isclosed(): REPRODUCED('%%s changed isclosed() from %%r to %%r' %% (op, p.isclosed(), q.isclosed()))
'''


def fam_joints(R, n, op):
    import svgpathtools.path as P
    from svgpathtools.path import Path, transform
    P.np = NPProxy()
    R.bound(n=n, op=op, kinds=KIND, patterns='all 2^n coincidence patterns of consecutive and closing joints')
    for kinds in itertools.product(KIND if n <= 2 else 'LC', repeat=n):
        for joined in itertools.product([False, True], repeat=n):
            if n == 1 and not joined[0]:
                continue

            alone = []

            def run():
                c = Ctx.cur
                del alone[:]
                segs = [mk(k, i) for i, k in enumerate(kinds)]
                for i in range(n):
                    e = ceq(segs[i].end, segs[(i + 1) % n].start)
                    c.assume(e if joined[i] else z3.Not(e))
                p = Path(*segs)
                if op == 'translated':
                    q = p.translated(symc('z0'))
                    alone[:] = [s_.translated(symc('z0')) for s_ in segs]
                elif op == 'rotated':
                    q = p.rotated(symr('degs'), symc('o'))
                    alone[:] = [s_.rotated(symr('degs'), symc('o')) for s_ in segs]
                elif op == 'scaled':
                    q = p.scaled(symr('sx'), symr('sy'), origin=symc('o'))
                    alone[:] = [s_.scaled(symr('sx'), symr('sy'), origin=symc('o')) for s_ in segs]
                elif op == 'scaled1':
                    q = p.scaled(symr('sx'))
                    alone[:] = []
                else:
                    M = np.empty((3, 3), dtype=object)
                    for i in range(2):
                        for j in range(3):
                            M[i, j] = symr('m%d%d' % (i, j))
                    M[2, 0], M[2, 1], M[2, 2] = 0.0, 0.0, 1.0
                    if n >= 2:
                        c.assume(M[0, 0].e != 1)     # the identity shortcut (and its 64 forks) is covered by n = 1
                    q = transform(p, M)
                    alone[:] = [transform(s_, M) for s_ in segs]
                if op.startswith('scaled') or n == 1:
                    return segs, (list(q), q.start, q.end)
                return segs, (list(q), None, None)

            for ctx, (kind, val) in explore(run, maxpaths=300):
                if kind == 'abort':
                    continue
                R.path(ctx)
                if kind != 'ok':
                    R.error('%s %s %s: unexpected %s %r' % (op, kinds, joined, kind, val))
                    continue
                segs, (q, qstart, qend) = val
                if len(q) != n:
                    continue   # identity shortcut returns the path itself
                if qstart is None:
                    same_ends = None
                # the Path object's own start/end are those of its first/last segment (no stale cache)
                memo0 = {}
                a0, b0 = tosc(qstart if qstart is not None else q[0].start), tosc(q[0].start)
                a1, b1 = tosc(qend if qend is not None else q[-1].end), tosc(q[-1].end)
                same_ends = z3.And(uf_abstract(a0.real.e, memo0) == uf_abstract(b0.real.e, memo0), uf_abstract(a0.imag.e, memo0) == uf_abstract(b0.imag.e, memo0),
                                   uf_abstract(a1.real.e, memo0) == uf_abstract(b1.real.e, memo0), uf_abstract(a1.imag.e, memo0) == uf_abstract(b1.imag.e, memo0))
                s0 = z3.Solver()
                s0.set('timeout', 20000)
                s0.add(*[ceq(segs[j].end, segs[(j + 1) % n].start) for j in range(n) if joined[j]])
                s0.add(z3.Not(same_ends))
                R.obligations += 1
                r0 = str(s0.check())
                if r0 == 'unsat':
                    R.discharged += 1
                elif r0 == 'unknown':
                    R.inconclusive.append('%s.path-start-end' % op)
                else:
                    R.obligations -= 1
                    R.direct_cex('%s.%s.path-start-end' % (op, ''.join(kinds)), {'cls': 'Path.start/end of the transformed path are not those of its segments (%s)' % op,
                                 'inputs': {'kinds': kinds, 'joined': joined, 'op': op}, 'script': REPLAY_JOINT % (''.join(kinds), list(joined), op)})
                # joints that did NOT coincide are left alone: both ends are those of the segment transformed on its own (reals)
                if len(alone) == n and not all(joined):
                    cl = []
                    for i in range(n):
                        if not joined[i]:
                            cl.append(ceq(tosc(q[i].end), tosc(alone[i].end)))
                            cl.append(ceq(tosc(q[(i + 1) % n].start), tosc(alone[(i + 1) % n].start)))
                    R.ob('%s.open-joints-left-alone' % op, ctx, z3.And(*cl), timeout_ms=30000,
                         cex=lambda m: {'cls': 'a joint that did not coincide is moved by %s' % op, 'inputs': {'kinds': kinds, 'joined': joined}, 'script': REPLAY_NEARJOINT % op})
                eqs = [c for c in ctx.pc]    # includes the joint equalities (plain variable equalities)
                for i in range(n):
                    if not joined[i]:
                        continue
                    a, b = tosc(q[i].end), tosc(q[(i + 1) % n].start)
                    memo = {}
                    claim = z3.And(uf_abstract(a.real.e, memo) == uf_abstract(b.real.e, memo),
                                   uf_abstract(a.imag.e, memo) == uf_abstract(b.imag.e, memo))
                    s = z3.Solver()
                    s.set('timeout', 20000)
                    joint_eqs = [ceq(segs[j].end, segs[(j + 1) % n].start) for j in range(n) if joined[j]]
                    s.add(*joint_eqs)
                    s.add(z3.Not(claim))
                    R.obligations += 1
                    r = str(s.check())
                    name = '%s.%s.%s.joint%d' % (op, ''.join(kinds), ''.join('01'[j] for j in joined), i)
                    if r == 'unsat':
                        R.discharged += 1
                    elif r == 'unknown':
                        R.inconclusive.append(name)
                    else:
                        R.obligations -= 1
                        cls = 'closing joint of a closed path not preserved' if i == n - 1 else 'interior joint not preserved'
                        R.direct_cex(name, {'cls': '%s (%s)' % (cls, op), 'inputs': {'kinds': kinds, 'joined': joined, 'op': op},
                                            'script': REPLAY_JOINT % (''.join(kinds), list(joined), op)})
            R.sample({'op': op, 'kinds': ''.join(kinds), 'joined': joined})


REPLAY_INTM = """
import numpy as np
from svgpathtools.path import transform
M = np.array(%r)            # integer dtype on purpose
ps = %r
seg = bpoints2bezier(ps)
try:
    b = transform(seg, M)
except Exception as e:
    REPRODUCED('transform(%%r, integer matrix %%r) raised %%s: %%s' %% (seg, M.tolist(), type(e).__name__, e))
for t in (0.0, 0.3, 1.0):
    p = seg.point(t); q = M.dot([p.real, p.imag, 1.0]); want = complex(q[0], q[1])
    if abs(b.point(t) - want) > 1e-9 * (1 + abs(want)):
        REPRODUCED('transform(%%r, integer matrix %%r).point(%%r) = %%r, M applied to point(t) = %%r' %% (seg, M.tolist(), t, b.point(t), want))
"""


def fam_int_matrix(R, deg):
    """transform() with a matrix of integer dtype (np.array([[2,0,1],...])): the result must not depend on the dtype of tf."""
    from svgpathtools.path import transform
    import svgpathtools.path as P
    R.bound(degree=deg, matrix='concrete, integer dtype: [[2,-1,3],[1,3,-2],[0,0,1]]')
    Mi = np.array([[2, -1, 3], [1, 3, -2], [0, 0, 1]])

    def run():
        ps = [symc('p%d' % i) for i in range(deg + 1)]
        t = symr('t')
        seg = cls_of(deg)(*ps)
        tr = transform(seg, Mi)
        pt = bern(ps, t)
        return ps, t, tr.point(t), SC(2 * pt.real - pt.imag + 3, pt.real + 3 * pt.imag - 2)

    for ctx, (kind, val) in explore(run, maxpaths=50):
        R.path(ctx)
        script = REPLAY_INTM % (Mi.tolist(), [complex(0.5 * i + 0.25, 1.75 - 0.5 * i * i) for i in range(deg + 1)])
        if kind != 'ok':
            if not R.direct_cex('no-exception', {'cls': 'transform with an integer matrix', 'inputs': {'exception': repr(val)[:150]}, 'script': script}):
                R.unexpected(ctx, 'unexpected %s %r' % (kind, val))
            continue
        ps, t, got, want = val
        R.ob('%s.transform-int-matrix' % NAMES[deg], ctx, ceq(got, want), cex=lambda m: {'cls': 'transform with an integer matrix', 'inputs': {}, 'script': script})
        R.sample({'class': NAMES[deg], 'matrix_dtype': str(Mi.dtype)})


REPLAY_ARCTF = """
import numpy as np
from svgpathtools.path import transform
rx, ry, rot, M = %r
M = np.array(M)
arcs = [Arc(0.5+0.25j, complex(rx, ry), rot, la, sw, 2+1.5j) for la in (0, 1) for sw in (0, 1)]
for arc in arcs:
    try:
        b = transform(arc, M)
    except Exception as e:
        REPRODUCED('transform(%%r, %%r) raised %%s: %%s' %% (arc, M.tolist(), type(e).__name__, e))
    for t in (0.0, 0.2, 0.5, 0.9, 1.0):
        p = arc.point(t)
        q = M.dot([p.real, p.imag, 1.0])
        want = complex(q[0], q[1]); got = b.point(t)
        if abs(got - want) > 1e-6 * (1 + abs(want)):
            REPRODUCED('transform(%%r, %%r).point(%%r) = %%r but M applied to point(%%r) is %%r' %% (arc, M.tolist(), t, got, t, want))
"""


def fam_arc_transform(R, rot, mclass):
    """the Arc branch of transform(): executed on an arc with symbolic end points and radii, a rotation with rational
    cos/sin and a symbolic invertible affine matrix.  np.linalg.inv / det of the 2x2 block are closed forms, np.linalg.eigh is its
    contract (eigenpairs of the symmetric matrix it is given: D v = lambda v, unit orthogonal eigenvectors, ascending eigenvalues),
    arctan2 of a unit vector is the angle with that cos/sin.  Claims: new start/end are the images of the old ones; the quadratic
    form of the new radii/rotation, pulled back by the matrix, is the quadratic form of the old ellipse (A^T F' A = F); large_arc is
    kept and sweep flips exactly for orientation-reversing matrices.  With C04 (an arc is determined by end points, radii,
    rotation and flags, parameterised linearly in the eccentric angle) this is point(t) -> M point(t)."""
    import svgpathtools.path as P
    from svgpathtools.path import transform, Arc
    from . import c04
    from ..ang import Ang
    from .. import symx
    deg, c, s = c04.ROTATIONS[rot]
    R.bound(rotation=rot, matrix=mclass, radii='symbolic > 0', end_points='symbolic')
    R.stub('np.linalg.inv / det (2x2) -> closed forms', 'np.linalg.eigh -> its contract on the symmetric argument', 'np.arctan2 of a unit vector -> angle with that cos/sin',
           'np.radians/cos/sin of the rotation -> the rational pair of the family', 'Arc._parameterize -> no-op (C04)', 'complex() -> symbolic complex')
    orig = Arc._parameterize

    def inv2(m):
        a_, b_, c_, d_ = m[0, 0], m[0, 1], m[1, 0], m[1, 1]
        det = a_ * d_ - b_ * c_
        out = np.empty((2, 2), dtype=object)
        out[0, 0], out[0, 1], out[1, 0], out[1, 1] = d_ / det, -b_ / det, -c_ / det, a_ / det
        return out

    def det2(m):
        return m[0, 0] * m[1, 1] - m[0, 1] * m[1, 0]
    eig_calls = []

    def eigh(Dm):
        cx = Ctx.cur
        p_, q_, q2_, r_ = lift(Dm[0, 0]), lift(Dm[0, 1]), lift(Dm[1, 0]), lift(Dm[1, 1])
        l0, l1 = SR(cx.fresh('lam')), SR(cx.fresh('lam'))
        vx, vy = SR(cx.fresh('vx')), SR(cx.fresh('vy'))
        sg = cx.fresh('sg')
        # only the sign facts enter the path condition (they decide forks); the eigen-relations are hypotheses of the obligations
        cx.assume(l0.e > 0, l0.e <= l1.e, vx.e >= -1, vx.e <= 1, vy.e >= -1, vy.e <= 1)
        wx, wy = -vy * SR(sg), vx * SR(sg)
        # contract of eigh on a symmetric matrix: V orthogonal, V diag(l) V^T = D (ascending l).  Orthonormality is a hypothesis
        # of the obligations; the spectral equality is what links obligation (i) to obligation (ii) below.
        contract = [(vx * vx + vy * vy).e == 1, sg * sg == 1]
        eig_calls.append((contract, (p_, q_, q2_, r_), (l0, l1, vx, vy, wx, wy)))
        vals = np.empty(2, dtype=object)
        vals[0], vals[1] = l0, l1
        vecs = np.empty((2, 2), dtype=object)
        vecs[0, 0], vecs[1, 0], vecs[0, 1], vecs[1, 1] = vx, vy, wx, wy
        return vals, vecs

    eigh_fn = eigh

    class LA:
        inv = staticmethod(inv2)
        det = staticmethod(det2)
        eigh = staticmethod(eigh_fn)
        eig = staticmethod(eigh_fn)

    def arctan2(y, x):
        return Ang(Ctx.cur.fresh('rotdeg'), lift(x).e, lift(y).e, 'rad')

    def radians(x):
        if isinstance(x, c04.RotDeg):
            return Ang(z3.RealVal(repr(float(x))), z3.RealVal(str(x.c)), z3.RealVal(str(x.s)), 'rad')
        return c04.my_radians(x)

    def sqrt_(x):
        x = lift(x)
        return x.sqrt()

    def cplx(re=0, im=0):
        if isinstance(re, (SR, SC)) or isinstance(im, SR):
            return tosc(re) + tosc(im) * 1j
        return complex(re, im)

    def run(la_=True, sw_=True):
        del eig_calls[:]
        Arc._parameterize = lambda self: None
        try:
            cx = Ctx.cur
            st, en = symc('st'), symc('en')
            rx, ry = symr('rx'), symr('ry')
            cx.assume(rx.e > 0, ry.e > 0, z3.Not(ceq(st, en)))
            arc = Arc(st, SC(rx, ry), c04.RotDeg(deg, c, s), la_, sw_, en)
            M = np.empty((3, 3), dtype=object)
            names = [['m00', 'm01', 'm02'], ['m10', 'm11', 'm12']]
            for i in range(2):
                for j in range(3):
                    M[i, j] = symr(names[i][j])
            M[2, 0], M[2, 1], M[2, 2] = 0.0, 0.0, 1.0
            if mclass == 'diagonal':
                cx.assume(M[0, 1].e == 0, M[1, 0].e == 0)
            elif mclass == 'shear':
                cx.assume(M[0, 0].e == 1, M[1, 1].e == 1)
            elif mclass == 'similarity':
                cx.assume(M[0, 0].e == M[1, 1].e, M[0, 1].e == (-M[1, 0]).e)
            elif mclass == 'reflection':
                cx.assume(M[0, 0].e == (-M[1, 1]).e, M[0, 1].e == M[1, 0].e)
            detA = det2(M)
            cx.assume(detA.e != 0)
            # the identity shortcut (all entries compared) is explored by the Bezier family: here the first entry differs
            cx.assume(M[0, 1].e != 0 if mclass == 'shear' else M[0, 0].e != 1)
            class NotIdentity:
                # transform()'s identity shortcut `all((tf == np.eye(3)).ravel())` is explored in the Bezier family; here tf is not the identity
                _never_equal = True

                def __eq__(self, o):
                    return np.array([False])
                __hash__ = None
            proxy = NPProxy(linalg=LA, arctan2=arctan2, radians=radians, sqrt=sqrt_, degrees=c04.my_degrees, eye=lambda n: NotIdentity())
            with patched(P, np=proxy, complex=cplx):
                b = transform(arc, M)
            return arc, st, en, rx, ry, M, b, list(eig_calls)
        finally:
            Arc._parameterize = orig

    def all_runs():
        for la_, sw_ in itertools.product((False, True), repeat=2):
            for ctx_, res_ in explore(lambda: run(la_, sw_), maxpaths=100):
                yield ctx_, res_, la_, sw_

    for ctx, (kind, val), la_, sw_ in all_runs():
        if kind == 'abort':
            continue
        R.path(ctx, nontrivial=True)
        if kind != 'ok':
            # an exception inside the arc branch: the property says transform() works for every invertible matrix -- replay a model of the path
            from ..symx import check_sat as _cs
            r_, dt_, m_ = _cs(ctx, (), 20000)     # an infeasible path (entered through an undecided branch) is not an error
            done = False
            if r_ == 'sat' and m_ is not None:
                try:
                    Mv = [[mval(m_, z3.Real('m%d%d' % (i, j))) for j in range(3)] for i in range(2)] + [[0.0, 0.0, 1.0]]
                    inp = (max(0.5, abs(mval(m_, z3.Real('rx')))), max(0.5, abs(mval(m_, z3.Real('ry')))), deg, Mv)
                    done = R.direct_cex('no-exception', {'cls': 'transform(Arc, M)', 'inputs': {'M': Mv, 'exception': repr(val)[:120]}, 'script': REPLAY_ARCTF % (inp,)})
                except Exception:
                    done = False
            if not done:
                R.unexpected(ctx, 'unexpected %s %r' % (kind, val))
            continue
        arc, st, en, rx, ry, M, b, ecalls = val
        Ctx.cur = ctx

        def cex(m):
            Mv = [[mval(m, lift(M[i, j])) for j in range(3)] for i in range(3)]
            inp = (mval(m, rx), mval(m, ry), deg, Mv)
            return {'cls': 'transform(Arc, M)', 'inputs': {'rx': inp[0], 'ry': inp[1], 'rotation': deg, 'M': Mv}, 'script': REPLAY_ARCTF % (inp,)}
        robust = [rx.e >= 0.5, rx.e <= 4, ry.e >= 0.5, ry.e <= 4] + [z3.And(lift(M[i, j]).e >= -3, lift(M[i, j]).e <= 3) for i in range(2) for j in range(3)] + \
                 [z3.Or(det2(M).e >= 0.3, det2(M).e <= -0.3)]
        if not isinstance(b, Arc):
            R.ob('result-is-an-Arc', ctx, z3.BoolVal(False), cex=cex, robust=robust + [z3.BoolVal(True)])
            continue

        def img(z):
            return SC(M[0, 0] * z.real + M[0, 1] * z.imag + M[0, 2], M[1, 0] * z.real + M[1, 1] * z.imag + M[1, 2])
        if len(ecalls) != 1:
            R.ob('one-eigendecomposition', ctx, z3.BoolVal(False), cex=cex, robust=robust + [z3.BoolVal(True)])
            continue
        contract, (Dp, Dq, Dq2, Dr), (l0, l1, vx, vy, wx, wy) = ecalls[0]
        R.ob('end-points', ctx, z3.And(ceq(tosc(b.start), img(st)), ceq(tosc(b.end), img(en))), cex=cex, robust=None)
        # quadratic forms
        cc, ss = SR(z3.RealVal(str(c))), SR(z3.RealVal(str(s)))

        def form(co, si, r1, r2):
            # R diag(1/r1^2, 1/r2^2) R^T
            i1, i2 = 1 / (r1 * r1), 1 / (r2 * r2)
            return (co * co * i1 + si * si * i2, co * si * (i1 - i2), si * si * i1 + co * co * i2)
        F = form(cc, ss, rx, ry)
        rot_b = b.rotation
        if not isinstance(rot_b, Ang):
            R.ob('rotation-from-the-eigenvector', ctx, z3.BoolVal(False), cex=cex, robust=robust + [z3.BoolVal(True)])
            continue
        brad = tosc(b.radius)
        Fb = form(SR(rot_b.c), SR(rot_b.s), brad.real, brad.imag)
        a_, b_, c_, d_ = M[0, 0], M[0, 1], M[1, 0], M[1, 1]
        # (i) the new radii / rotation are the spectral form of what eigh returned:  F' = l0 v v^T + l1 w w^T
        S = (l0 * vx * vx + l1 * wx * wx, l0 * vx * vy + l1 * wx * wy, l0 * vy * vy + l1 * wy * wy)
        for nm, lhs, rhs in (('11', Fb[0], S[0]), ('12', Fb[1], S[1]), ('22', Fb[2], S[2])):
            gap = lift(lhs).e - lift(rhs).e
            R.ob_eq('new-ellipse=spectral-form.%s' % nm, ctx, lift(lhs).e, lift(rhs).e, extra=contract, cex=cex,
                    robust=robust + contract + [z3.Or(gap >= 0.05, gap <= -0.05)], timeout_ms=60000)
        # (ii) the matrix handed to eigh, pulled back by A, is the old ellipse's form:  A^T D A = F   (and D is symmetric)
        p11 = a_ * (Dp * a_ + Dq * c_) + c_ * (Dq2 * a_ + Dr * c_)
        p12 = a_ * (Dp * b_ + Dq * d_) + c_ * (Dq2 * b_ + Dr * d_)
        p22 = b_ * (Dp * b_ + Dq * d_) + d_ * (Dq2 * b_ + Dr * d_)
        for nm, lhs, rhs in (('11', p11, F[0]), ('12', p12, F[1]), ('22', p22, F[2]), ('symmetric', Dq, Dq2)):
            gap = lift(lhs).e - lift(rhs).e
            R.ob_eq('decomposed-matrix=pulled-back-form.%s' % nm, ctx, lift(lhs).e, lift(rhs).e, cex=cex,
                    robust=robust + [z3.Or(gap >= 0.05, gap <= -0.05)], timeout_ms=60000)
        detA = det2(M)
        R.ob('large_arc-kept', ctx, z3.BoolVal(b.large_arc is la_), cex=cex, robust=robust + [z3.BoolVal(True)])
        if b.sweep is sw_:
            R.ob('sweep-kept-only-if-orientation-preserved', ctx, detA.e > 0, cex=cex, robust=robust + [detA.e <= -0.3])
        else:
            R.ob('sweep-flipped-only-if-orientation-reversed', ctx, detA.e < 0, cex=cex, robust=robust + [detA.e >= 0.3])
        R.sample({'rotation': rot, 'matrix': mclass, 'decisions': ''.join('TF'[not d[0]] for d in ctx.decisions[:ctx.pos])})


def families(tier):
    M = 'vf.props.c10'
    fams = [('bezier-ops-deg%d' % d, M, 'fam_bezier_ops', {'deg': d}) for d in (1, 2, 3)]
    fams += [('bezier-transform-int-matrix-deg%d' % d, M, 'fam_int_matrix', {'deg': d}) for d in (1, 3)]
    fams.append(('arc-scale-refusal', M, 'fam_arc_scale_refusal', {}))
    fams.append(('arc-ops-structure', M, 'fam_arc_ops_structure', {}))
    for rot in (('0', 'p37') if tier == 'quick' else ('0', 'p37', '90', 'm67', 'p127')):
        for mc in ('similarity', 'diagonal', 'shear', 'reflection', 'general'):
            fams.append(('arc-transform-%s-%s' % (rot, mc), M, 'fam_arc_transform', {'rot': rot, 'mclass': mc}))
    for op in ('translated', 'rotated', 'scaled', 'scaled1', 'transform'):
        for n in ((1, 2, 3) if tier == 'quick' else (1, 2, 3, 4)):
            fams.append(('joints-%s-n%d' % (op, n), M, 'fam_joints', {'n': n, 'op': op}))
    return fams
