"""C02 -- parse_path implements the SVG path-data semantics (state machine layer
+ lexer layer)."""
import itertools

import z3

from ..symx import (SR, SC, explore, symc, symr, ceq, req, mval, mcval, Ctx, TOK, lift, Abort)
from ..stubs import patched, float_stub, NPProxy
from .c01 import segeq, seg_fields, all_int

META = {
    'explanation': (
        'State machine: for every command program "M c1..ck" over the 20 letters (k<=2 quick, <=3 thorough, plus k=4 programs '
        'that contain S/T/Z), with every implicit-repetition variant, the real Path._parse_path runs on a token stream whose '
        'numeric arguments are symbolic reals (arc flags enumerated, radii may be 0) and z3 (QF_LRA) compares the produced '
        'segment list with a reference interpreter written from SVG 1.1 s8.3 / SVG 2 s9.3 for ALL argument values.  An '
        'exception on a grammatical program is a violation.  Lexer: the live FLOAT_RE / COMMAND_RE patterns are translated '
        'to z3 regular expressions and compared with the SVG number grammar; maximal-munch obligations for adjacent numbers '
        'and for arc flags are decided on symbolic strings.'),
    'outside': ['programs longer than the bound; random longer programs', 'Python re picks the leftmost-longest match for FLOAT_RE (assumed; witnesses are run through the real re)',
                'Arc._parameterize is a no-op here (C04)', 'arcs whose end equals the current point (library asserts; SVG says omit)'],
    'assumptions': ['float(repr(x)) == x', 'arguments are finite reals'],
}

NARGS = {'M': 2, 'Z': 0, 'L': 2, 'H': 1, 'V': 1, 'C': 6, 'S': 4, 'Q': 4, 'T': 2, 'A': 7}
LETTERS = 'MmZzLlHhVvCcSsQqTtAa'


# ----------------------------------------------------------------------------
# reference interpreter (from the SVG specification, independent of the code)
# ----------------------------------------------------------------------------
def reference(program, args):
    """program: list of (letter, ngroups); args: iterator of symbolic numbers /
    concrete flags in reading order.  Returns a list of ('L',p0,p1) ('C',p0,c1,c2,p1)
    ('Q',p0,c,p1) ('A',p0,rx,ry,rot,fa,fs,p1)."""
    it = iter(args)
    nxt = lambda: next(it)
    cur = SC(0, 0)
    start = None
    segs = []
    last = None      # ('C', c2) or ('Q', c) of the previous command, else None
    for letter, groups in program:
        up = letter.upper()
        rel = letter.islower()
        for g in range(groups if up != 'Z' else 1):
            if up == 'M':
                if g == 0:
                    p = SC(nxt(), nxt())
                    cur = cur + p if rel else p
                    start = cur
                    last = None
                    continue
                up_eff = 'L'
            else:
                up_eff = up
            if up_eff == 'Z':
                if not (cur == start):
                    segs.append(('L', cur, start))
                cur = start
                last = None
            elif up_eff == 'L':
                p = SC(nxt(), nxt())
                p = cur + p if rel else p
                segs.append(('L', cur, p))
                cur = p
                last = None
            elif up_eff == 'H':
                x = nxt()
                p = SC(cur.real + x if rel else x, cur.imag)
                segs.append(('L', cur, p))
                cur = p
                last = None
            elif up_eff == 'V':
                y = nxt()
                p = SC(cur.real, cur.imag + y if rel else y)
                segs.append(('L', cur, p))
                cur = p
                last = None
            elif up_eff == 'C':
                c1, c2, p = SC(nxt(), nxt()), SC(nxt(), nxt()), SC(nxt(), nxt())
                if rel:
                    c1, c2, p = cur + c1, cur + c2, cur + p
                segs.append(('C', cur, c1, c2, p))
                cur = p
                last = ('C', c2)
            elif up_eff == 'S':
                c1 = (cur + cur - last[1]) if (last and last[0] == 'C') else cur
                c2, p = SC(nxt(), nxt()), SC(nxt(), nxt())
                if rel:
                    c2, p = cur + c2, cur + p
                segs.append(('C', cur, c1, c2, p))
                cur = p
                last = ('C', c2)
            elif up_eff == 'Q':
                c, p = SC(nxt(), nxt()), SC(nxt(), nxt())
                if rel:
                    c, p = cur + c, cur + p
                segs.append(('Q', cur, c, p))
                cur = p
                last = ('Q', c)
            elif up_eff == 'T':
                c = (cur + cur - last[1]) if (last and last[0] == 'Q') else cur
                p = SC(nxt(), nxt())
                if rel:
                    p = cur + p
                segs.append(('Q', cur, c, p))
                cur = p
                last = ('Q', c)
            elif up_eff == 'A':
                rx, ry, rot, fa, fs = nxt(), nxt(), nxt(), nxt(), nxt()
                p = SC(nxt(), nxt())
                if rel:
                    p = cur + p
                if (rx == 0) or (ry == 0):
                    segs.append(('L', cur, p))
                else:
                    segs.append(('A', cur, abs(rx), abs(ry), rot, bool(fa), bool(fs), p))
                cur = p
                last = None
    return segs


def seg_matches(ref, seg):
    """z3 Bool: library segment equals reference tuple."""
    from svgpathtools.path import Line, QuadraticBezier, CubicBezier, Arc
    k = ref[0]
    if k == 'L':
        if not isinstance(seg, Line):
            return z3.BoolVal(False)
        return z3.And(ceq(seg.start, ref[1]), ceq(seg.end, ref[2]))
    if k == 'C':
        if not isinstance(seg, CubicBezier):
            return z3.BoolVal(False)
        return z3.And(*[ceq(a, b) for a, b in zip(seg.bpoints(), ref[1:])])
    if k == 'Q':
        if not isinstance(seg, QuadraticBezier):
            return z3.BoolVal(False)
        return z3.And(*[ceq(a, b) for a, b in zip(seg.bpoints(), ref[1:])])
    if k == 'A':
        if not isinstance(seg, Arc):
            return z3.BoolVal(False)
        if seg.large_arc != ref[5] or seg.sweep != ref[6]:
            return z3.BoolVal(False)
        return z3.And(ceq(seg.start, ref[1]), req(seg.radius.real, ref[2]), req(seg.radius.imag, ref[3]),
                      req(lift(seg.rotation) if not hasattr(seg.rotation, 'd') else SR(seg.rotation.d), ref[4]),
                      ceq(seg.end, ref[7]))


def build(program, flagbits):
    """d-string with placeholder tokens + the argument list (reading order)"""
    TOK.reset()
    parts = []
    args = []
    cnt = itertools.count()
    fb = iter(flagbits)
    for letter, groups in program:
        up = letter.upper()
        parts.append(letter)
        for g in range(groups if up != 'Z' else 0):
            toks = []
            for j in range(NARGS[up]):
                if up == 'A' and j in (3, 4):
                    b = next(fb)
                    toks.append(str(b))
                    args.append(b)
                else:
                    v = symr('a%d' % next(cnt))
                    toks.append(format(v, ''))
                    args.append(v)
            parts.append(','.join(toks))
    return ' '.join(parts), args


def fam_programs(R, k, first_letters, memory_only=False):
    import svgpathtools.path as P
    from svgpathtools.path import Path, Arc
    P.float = float_stub
    P.np = NPProxy()
    Arc._parameterize = lambda self: None
    R.stub('path.float -> placeholder-token map', 'Arc._parameterize -> no-op (C02 only)', 'warnings.warn silenced')
    R.bound(commands_after_M=k, letters=LETTERS, repeat_variants='1 or 2 argument groups per command',
            memory_only=memory_only)
    n_prog = 0
    for first in first_letters:
        for rest in itertools.product(LETTERS, repeat=k - 1) if k >= 1 else [()]:
            letters = ((first,) + tuple(rest)) if k >= 1 else ()
            if memory_only and not (set(l.upper() for l in letters) & set('STZ')):
                continue
            for m0 in 'Mm':
                for reps in itertools.product((1, 2), repeat=len(letters) + 1):
                    # only vary repetition of at most two positions to bound the space
                    if sum(1 for r in reps if r == 2) > (2 if k <= 2 else 1):
                        continue
                    if m0 == 'm' and any(r == 2 for r in reps[1:]) and k > 1:
                        continue
                    program = [(m0, reps[0])] + [(l, r if l.upper() != 'Z' else 1) for l, r in zip(letters, reps[1:])]
                    if any(l.upper() == 'Z' and r == 2 for l, r in zip(letters, reps[1:])):
                        continue
                    if k >= 2 and any(l.upper() == 'A' for l in letters) and sum(1 for r in reps if r == 2) > 1:
                        continue
                    nflags = sum(2 * g for l, g in program if l.upper() == 'A')
                    flagsets = [(0, 1) * (nflags // 2)] if nflags else [()]
                    if nflags and k <= 1:
                        flagsets.append((1, 0) * (nflags // 2))
                    for flagbits in flagsets:
                        n_prog += 1
                        run_program(R, program, flagbits)
    R.sample({'programs_in_family': n_prog})


def fam_memory3(R, mid_letters):
    """k=3 programs  M <curve> <any> <smooth>: the commands with memory (S/T)
    after every possible intermediate command."""
    import svgpathtools.path as P
    from svgpathtools.path import Arc
    P.float = float_stub
    P.np = NPProxy()
    Arc._parameterize = lambda self: None
    R.stub('path.float -> placeholder-token map', 'Arc._parameterize -> no-op (C02 only)')
    R.bound(programs='M <C|S|Q|T|c|s|q|t> <%s> <S|s|T|t>' % mid_letters)
    n = 0
    for a in 'CSQTcsqt':
        for b in mid_letters:
            for c in 'SsTt':
                program = [('M', 1), (a, 1), (b, 1), (c, 1)]
                nflags = 2 if b.upper() == 'A' else 0
                run_program(R, program, (0, 1) * (nflags // 2))
                n += 1
    R.sample({'programs_in_family': n})


def run_program(R, program, flagbits):
    from svgpathtools.path import Path, Arc

    def run():
        d, args = build(program, flagbits)
        c = Ctx.cur
        try:
            q = Path(d)
            segs = list(q)
        except AssertionError as e:
            # Arc.__init__ asserts start != end: outside the claim, drop the path
            raise Abort()
        except Exception as e:
            segs = e
        ref = reference(program, args)
        return d, args, segs, ref

    pname = ''.join('%s%s' % (l, '' if g == 1 else '*2') for l, g in program)
    for ctx, (kind, val) in explore(run, maxpaths=4000, logic='QF_NRA'):
        if kind == 'abort':
            continue
        R.path(ctx)
        if kind != 'ok':
            R.error('%s: unexpected %s %r' % (pname, kind, val))
            continue
        d, args, segs, ref = val
        symargs = [a for a in args if isinstance(a, SR)]

        def cex(m):
            TOKv = {}
            for tok, sr in TOK.reg.items():
                TOKv[tok] = repr(mval(m, sr))
            dd = d
            for tok, v in TOKv.items():
                dd = dd.replace(tok, v)
            return {'cls': classify(program, segs, ref), 'inputs': {'d': dd},
                    'script': REPLAY % (dd, render_ref(m, ref))}
        robust = []
        for a in symargs:
            robust += [z3.IsInt(a.e), a.e >= -30, a.e <= 30]
        if isinstance(segs, Exception):
            R.ob(pname + '.no-exception', ctx, z3.BoolVal(False), cex=cex, robust=robust)
            continue
        if len(segs) != len(ref):
            claim = z3.BoolVal(False)
        else:
            claim = z3.And(*[seg_matches(r, s) for r, s in zip(ref, segs)]) if ref else z3.BoolVal(True)
        R.ob(pname, ctx, claim, cex=cex, robust=robust, timeout_ms=30000)
        if R.paths % 500 == 1:
            R.sample({'program': pname, 'd': d[:120], 'segments': len(ref)})


def render_ref(m, ref):
    out = []
    for r in ref:
        vals = []
        for x in r[1:]:
            if isinstance(x, bool):
                vals.append(x)
            elif isinstance(x, SC):
                vals.append(mcval(m, x))
            else:
                vals.append(mval(m, x))
        out.append((r[0],) + tuple(vals))
    return out


def classify(program, segs, ref):
    letters = ''.join(l.upper() for l, _ in program)
    if isinstance(segs, Exception):
        if 'ZS' in letters or 'ZT' in letters:
            return 'S/T directly after closepath raises %s' % type(segs).__name__
        return 'grammatical program raises %s' % type(segs).__name__
    if len(segs) != len(ref):
        return 'segment count differs from SVG semantics'
    return 'segments differ from SVG semantics'


REPLAY = '''
d = %r
ref = %r
try:
    p = parse_path(d)
except Exception as e:
    REPRODUCED('parse_path(%%r) raises %%r; SVG semantics: %%r' %% (d, e, ref))
def ok(r, s):
    k = r[0]
    if k == 'L': return isinstance(s, Line) and close(s.start, r[1]) and close(s.end, r[2])
    if k == 'C': return isinstance(s, CubicBezier) and all(close(a, b) for a, b in zip(s.bpoints(), r[1:]))
    if k == 'Q': return isinstance(s, QuadraticBezier) and all(close(a, b) for a, b in zip(s.bpoints(), r[1:]))
    if k == 'A':
        return isinstance(s, Arc) and close(s.start, r[1]) and close(s.end, r[7]) and s.large_arc == r[5] and s.sweep == r[6] \\
            and close(s.rotation, r[4]) and (close(s.radius, complex(r[2], r[3])) or abs(s.radius) > abs(complex(r[2], r[3])))
if len(p) != len(ref) or not all(ok(r, s) for r, s in zip(ref, p)):
    REPRODUCED('parse_path(%%r) = %%r; SVG semantics: %%r' %% (d, p, ref))
'''


# ----------------------------------------------------------------------------
# lexer layer: live regexes as z3 regular expressions
# ----------------------------------------------------------------------------
SVG_NUM = r"[-+]?(?:[0-9]*\.[0-9]+|[0-9]+)(?:[eE][-+]?[0-9]+)?"     # SVG 2 / CSS <number>
SVG_SEP = r"(?:[ \t\n\r\x0c]*,[ \t\n\r\x0c]*|[ \t\n\r\x0c]+)"      # comma-wsp
SVG_LETTERS = 'MmZzLlHhVvCcSsQqTtAa'


def fam_lexer(R, maxlen):
    import re
    import time
    import svgpathtools.path as P
    from ..rex import to_z3
    R.bound(token_length=maxlen, separator_length=3)
    F = to_z3(P.FLOAT_RE)
    NUM = to_z3(SVG_NUM)
    SEP = to_z3(SVG_SEP)
    p1, p2, u, sep, w = z3.Strings('p1 p2 u sep w')
    lens = [z3.Length(p1) <= maxlen, z3.Length(p2) <= maxlen, z3.Length(sep) <= 3, z3.Length(w) <= maxlen]

    def query(name, cons, render=None, expect='unsat'):
        R.obligations += 1
        sol = z3.Solver()
        sol.set('timeout', 60000)
        sol.add(*cons)
        t0 = time.time()
        r = str(sol.check())
        R.solver_time += time.time() - t0
        R.paths += 1
        R.nontrivial += 1
        if r == 'unsat':
            R.discharged += 1
            return None
        if r == 'unknown':
            R.inconclusive.append(name)
            return None
        m = sol.model()
        R.obligations -= 1      # direct_cex counts it
        c = render(m) if render else None
        if c is None:
            R.obligations += 1
            R.spurious.append({'ob': name, 'why': 'sat, no renderer', 'model': str(m)[:200]})
        else:
            R.direct_cex(name, c)
        return m

    def sval(m, x):
        return m.eval(x, model_completion=True).as_string()

    def tok_render(cls):
        def f(m):
            a, sp_, b = sval(m, p1), sval(m, sep), sval(m, p2)
            return {'cls': cls, 'inputs': {'p1': a, 'sep': sp_, 'p2': b}, 'script': LEX_REPLAY % (a, sp_, b)}
        return f

    # (a) the number language of FLOAT_RE is the SVG number language
    query('lang.FLOAT_RE-minus-SVG', [z3.InRe(w, z3.Intersect(F, z3.Complement(NUM)))] + lens,
          lambda m: {'cls': 'FLOAT_RE accepts a non-number', 'inputs': sval(m, w), 'script': LANG_REPLAY % sval(m, w)})
    query('lang.SVG-minus-FLOAT_RE', [z3.InRe(w, z3.Intersect(NUM, z3.Complement(F)))] + lens,
          lambda m: {'cls': 'FLOAT_RE rejects an SVG number', 'inputs': sval(m, w), 'script': LANG_REPLAY % sval(m, w)})
    # (b) maximal munch: the match starting at p1 cannot extend into sep/p2
    base = [z3.InRe(p1, NUM), z3.InRe(p2, NUM), z3.PrefixOf(u, z3.Concat(sep, p2)), z3.Length(u) > 0,
            z3.InRe(z3.Concat(p1, u), F)] + lens
    query('munch.explicit-separator', base + [z3.InRe(sep, SEP)], tok_render('adjacent numbers merged'))
    sign = z3.Union(z3.Re('+'), z3.Re('-'))
    anyc = z3.Star(z3.AllChar(z3.ReSort(z3.StringSort())))
    query('munch.sign-as-separator', base + [sep == z3.StringVal(''), z3.InRe(p2, z3.Concat(sign, anyc))],
          tok_render('adjacent numbers merged'))
    hasdot = z3.Concat(anyc, z3.Union(z3.Re('.'), z3.Re('e'), z3.Re('E')), anyc)
    query('munch.dot-as-separator', base + [sep == z3.StringVal(''), z3.InRe(p2, z3.Concat(z3.Re('.'), anyc)),
                                             z3.InRe(p1, hasdot)], tok_render('adjacent numbers merged'))
    # (c) a shorter match than p1 is never chosen: p1 itself is a match (lang equality) -- and no
    #     match can start inside a separator
    sepchar = z3.Union(*[z3.Re(c) for c in ' \t\n\r\x0c,'])
    query('munch.no-match-starts-in-separator', [z3.InRe(w, z3.Intersect(F, z3.Concat(sepchar, anyc)))] + lens)
    # (d) COMMAND_RE.split never cuts a number: no SVG number contains a command letter
    letters = z3.Union(*[z3.Re(c) for c in sorted(P.COMMANDS)])
    query('split.no-command-letter-inside-number',
          [z3.InRe(w, z3.Intersect(NUM, z3.Concat(anyc, letters, anyc)))] + lens)
    # (e) arc flags may be written without separators: after a flag digit the
    #     match must not extend into what follows
    f1 = z3.String('f1')
    flag = z3.Union(z3.Re('0'), z3.Re('1'))
    m = query('munch.arc-flag-followed-directly', [z3.InRe(f1, flag), z3.InRe(p2, z3.Union(flag, NUM)),
              z3.PrefixOf(u, p2), z3.Length(u) > 0, z3.InRe(z3.Concat(f1, u), F)] + lens,
              lambda m: {'cls': 'arc flags without separator are merged into one number',
                         'inputs': {'flag': sval(m, f1), 'next': sval(m, p2)},
                         'script': FLAG_REPLAY})
    # (f) command letters (concrete, exhaustive over ASCII)
    R.obligations += 1
    bad = []
    for i in range(128):
        ch = chr(i)
        a = bool(P.COMMAND_RE.fullmatch(ch))
        b = ch in P.COMMANDS
        c = ch in SVG_LETTERS
        if not (a == b == c) or ((ch in P.UPPERCASE) != (c and ch.isupper())):
            bad.append(ch)
    if bad:
        R.obligations -= 1
        R.direct_cex('letters', {'cls': 'command letter sets disagree', 'inputs': bad, 'script': """
import svgpathtools.path as P
for ch in %r:
    REPRODUCED('letter %%r: COMMAND_RE %%r COMMANDS %%r UPPERCASE %%r' %% (ch, bool(P.COMMAND_RE.fullmatch(ch)), ch in P.COMMANDS, ch in P.UPPERCASE))
""" % bad})
    else:
        R.discharged += 1
    # validate the leftmost-longest assumption on a few strings through the real re
    for s_ in ('1-2', '1.5.5', '-.5e-3-7', '1e5', '3,4', '1 2', '.5.5'):
        got = P.FLOAT_RE.findall(s_)
        R.sample({'string': s_, 'FLOAT_RE.findall': got})


LANG_REPLAY = '''
import svgpathtools.path as P
w = %r
import re
svgnum = re.compile(r"[-+]?(?:[0-9]*\\.[0-9]+|[0-9]+)(?:[eE][-+]?[0-9]+)?")
if bool(P.FLOAT_RE.fullmatch(w)) != bool(svgnum.fullmatch(w)):
    REPRODUCED('FLOAT_RE and the SVG number grammar disagree on %%r' %% w)
'''

LEX_REPLAY = '''
import svgpathtools.path as P
a, sep, b = %r, %r, %r
toks = P.FLOAT_RE.findall(a + sep + b)
if toks != [a, b]:
    d1 = 'M 0,0 L ' + a + sep + b
    d2 = 'M 0,0 L ' + a + ' , ' + b
    try:
        same = parse_path(d1) == parse_path(d2)
    except Exception as e:
        REPRODUCED('%%r tokenises as %%r and parse_path(%%r) raises %%r' %% (a+sep+b, toks, d1, e))
    if not same:
        REPRODUCED('%%r tokenises as %%r: %%r and %%r parse differently' %% (a+sep+b, toks, d1, d2))
'''

FLAG_REPLAY = '''
ref = parse_path('M0,0 a25,25 -30 0,1 50,-25')
bad = []
for d in ('M0,0 a25,25 -30 01 50,-25', 'M0,0 a25,25 -30 0,150,-25', 'M0,0 a25,25 -30 0 150-25', 'M0,0 a25 25 -30 01 50-25'):
    try:
        p = parse_path(d)
        if p != ref: bad.append((d, p))
    except Exception as e:
        bad.append((d, repr(e)))
if bad:
    REPRODUCED('arc flags without separators: %r' % (bad[:2],))
'''


def families(tier):
    M = 'vf.props.c02'
    fams = [('prog-k0', M, 'fam_programs', {'k': 0, 'first_letters': ''})]
    fams[0] = ('prog-k0', M, 'fam_programs', {'k': 0, 'first_letters': 'x'})
    for l in LETTERS:
        fams.append(('prog-k1-%s' % l, M, 'fam_programs', {'k': 1, 'first_letters': l}))
    for l in LETTERS:
        fams.append(('prog-k2-%s' % l, M, 'fam_programs', {'k': 2, 'first_letters': l}))
    for grp in ('MmZz', 'LlHhVv', 'CcSs', 'QqTt', 'Aa'):
        fams.append(('prog-k3-memory-%s' % grp, M, 'fam_memory3', {'mid_letters': grp}))
    fams.append(('lexer', M, 'fam_lexer', {'maxlen': 8 if tier == 'quick' else 12}))
    if tier == 'thorough':
        for l in LETTERS:
            fams.append(('prog-k3-%s' % l, M, 'fam_programs', {'k': 3, 'first_letters': l}))
    return fams
