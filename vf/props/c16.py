"""C16 -- observations after any mutation history equal those of a fresh object."""
import itertools

import z3

from ..symx import (SR, SC, SB, explore, symc, symr, ceq, req, mval, mcval, Ctx, lift, TOK, zbool, Abort)
from ..stubs import NPProxy, patched, sym_min, sym_max, float_stub

META = {
    'explanation': (
        'Path histories: every sequence of k mutations (k<=2 quick, 3 thorough) over {setitem, slice-assign, insert, append, extend, '
        'delitem, pop, reverse, start=, end=} with all small index arguments is applied to a real Path of symbolic Lines; before the '
        'first and after every mutation all queries (length, start, end, T2t(T), point(T), bbox, d, ==) are evaluated on the mutated '
        'object and on Path(*current_segments) and z3 decides whether they can differ for any coordinates / any T.  Segment caches: '
        'CubicBezier/QuadraticBezier length with the quadrature kernels replaced by an uninterpreted function of (control points, t0, t1, '
        'error, min_depth), histories over {length(e,d), reassign control points, reversed()}: a cached answer may be served only if '
        'it was computed for the same control points with at least the requested accuracy.  eq => hash: the fields read by __eq__ and '
        '__hash__ of the five classes are traced on the real code and z3 (QF_UF, hash = uninterpreted function of the fields read) '
        'decides whether equal objects can hash differently.'),
    'outside': ['histories longer than the bound; random longer ones', 'Arc objects with reassigned fields (not in the property)'],
    'assumptions': ['quadrature kernels (quad, segment_length) are deterministic functions of the fields they read',
                    'hash of a tuple is a function of its components (Python contract)'],
}

IDX = (0, 1, -1, -2, -4)


_LF = z3.Function('LineLength', z3.RealSort(), z3.RealSort(), z3.RealSort(), z3.RealSort(), z3.RealSort())
_PX = z3.Function('LinePointX', *([z3.RealSort()] * 6))
_PY = z3.Function('LinePointY', *([z3.RealSort()] * 6))
_ULINE = [None]
REAL_LINES = [False]


def uline_class():
    """Line whose numeric kernels are uninterpreted functions of exactly the
    fields they read (start, end): equal answers <=> same data read."""
    if _ULINE[0] is None:
        from svgpathtools.path import Line

        class ULine(Line):
            def _args(self):
                return [lift(self.start.real).e, lift(self.start.imag).e, lift(self.end.real).e, lift(self.end.imag).e]

            def length(self, t0=0, t1=1, error=None, min_depth=None):
                v = _LF(*self._args())
                Ctx.cur.assume(v > 0)
                return SR(v) * (lift(t1) - lift(t0))

            def point(self, t):
                a = self._args() + [lift(t).e]
                return SC(SR(_PX(*a)), SR(_PY(*a)))
        _ULINE[0] = ULine
    return _ULINE[0]


def newline(tag):
    from svgpathtools.path import Line
    C = Line if REAL_LINES[0] else uline_class()
    return C(symc(tag + 'a'), symc(tag + 'b'))


def ops_alphabet():
    ops = []
    for i in IDX:
        ops.append(('setitem', i))
        ops.append(('insert', i))
        ops.append(('delitem', i))
    ops += [('setslice', (0, 1)), ('setslice', (1, 3)), ('append', None), ('extend', None), ('pop', None),
            ('reverse', None), ('start=', None), ('end=', None)]
    return ops


def apply(p, op, arg, tag):
    """returns False when the operation is not applicable (IndexError...)"""
    try:
        if op == 'setitem':
            p[arg] = newline(tag)
        elif op == 'insert':
            p.insert(arg, newline(tag))
        elif op == 'delitem':
            del p[arg]
        elif op == 'setslice':
            p[arg[0]:arg[1]] = [newline(tag + 'x'), newline(tag + 'y')]
        elif op == 'append':
            p.append(newline(tag))
        elif op == 'extend':
            p.extend([newline(tag + 'x'), newline(tag + 'y')])
        elif op == 'pop':
            p.pop()
        elif op == 'reverse':
            p.reverse()
        elif op == 'start=':
            p.start = symc(tag + 's')
        elif op == 'end=':
            p.end = symc(tag + 'e')
    except IndexError:
        return False
    return len(p) > 0


def dcompare(d1, d2):
    """z3 Bool: two d-strings with placeholder tokens denote the same string"""
    a, b = d1.replace(',', ' ').split(), d2.replace(',', ' ').split()
    if len(a) != len(b):
        return z3.BoolVal(False)
    cs = []
    for x, y in zip(a, b):
        if x in TOK.reg and y in TOK.reg:
            cs.append(req(TOK.reg[x], TOK.reg[y]))
        elif x != y:
            return z3.BoolVal(False)
    return z3.And(*cs) if cs else z3.BoolVal(True)


WITH_D = [True]


def observe(p, T):
    """all queries; each as (name, value) -- exceptions are values too"""
    out = {}
    with_T = T is not None

    def q(name, f):
        try:
            out[name] = f()
        except (ZeroDivisionError, AssertionError) as e:
            out[name] = ('raised', type(e).__name__)
    q('length', lambda: p.length())
    q('start', lambda: p.start)
    q('end', lambda: p.end)
    if with_T:
        q('T2t', lambda: p.T2t(T))
        q('point', lambda: p.point(T))
    q('bbox', lambda: p.bbox())
    if WITH_D[0]:
        q('d', lambda: p.d())
    q('len', lambda: len(p))
    return out


def same(name, a, b):
    if isinstance(a, tuple) and a and a[0] == 'raised' or isinstance(b, tuple) and b and b[0] == 'raised':
        return z3.BoolVal(a == b)
    if name in ('length',):
        return req(a, b)
    if name in ('start', 'end', 'point'):
        return ceq(a, b)
    if name == 'T2t':
        return z3.And(z3.BoolVal(a[0] == b[0]), req(a[1], b[1]))
    if name == 'bbox':
        return z3.And(*[req(x, y) for x, y in zip(a, b)])
    if name == 'd':
        return dcompare(a, b)
    if name == 'len':
        return z3.BoolVal(a == b)
    raise KeyError(name)


REPLAY_HIST = '''
import random
rnd = random.Random(11)
def rl():
    return Line(complex(rnd.randint(-9, 9), rnd.randint(-9, 9)), complex(rnd.randint(-9, 9), rnd.randint(-9, 9)))
def rc():
    return complex(rnd.randint(-9, 9), rnd.randint(-9, 9))
history = %r
prequery = %r
def observe(p):
    out = {}
    for nm, f in (('length', lambda: p.length()), ('start', lambda: p.start), ('end', lambda: p.end), ('T2t', lambda: p.T2t(0.37)),
                  ('point', lambda: p.point(0.37)), ('bbox', lambda: p.bbox()), ('d', lambda: p.d()), ('len', lambda: len(p))):
        try: out[nm] = f()
        except (ZeroDivisionError, AssertionError) as e: out[nm] = 'raised ' + type(e).__name__
    return out
for trial in range(30):
    while True:
        segs = [rl() for _ in range(3)]
        if all(s.start != s.end for s in segs): break
    p = Path(*segs)
    if prequery: observe(p)
    for step, (op, arg) in enumerate(history):
        try:
            if op == 'setitem': p[arg] = rl()
            elif op == 'insert': p.insert(arg, rl())
            elif op == 'delitem': del p[arg]
            elif op == 'setslice': p[arg[0]:arg[1]] = [rl(), rl()]
            elif op == 'append': p.append(rl())
            elif op == 'extend': p.extend([rl(), rl()])
            elif op == 'pop': p.pop()
            elif op == 'reverse': p.reverse()
            elif op == 'start=': p.start = rc()
            elif op == 'end=': p.end = rc()
        except IndexError:
            break
        if len(p) == 0: break
        got = observe(p); want = observe(Path(*list(p)))
        for k in got:
            a, b = got[k], want[k]
            ok = (a == b) if not isinstance(a, (float, complex)) else abs(a - b) <= 1e-9 * (1 + abs(b))
            if k == 'T2t' and isinstance(a, tuple) and isinstance(b, tuple): ok = a[0] == b[0] and abs(a[1] - b[1]) <= 1e-9
            if k == 'bbox' and isinstance(a, tuple) and isinstance(b, tuple): ok = all(abs(x - y) <= 1e-9 for x, y in zip(a, b))
            if not ok:
                REPRODUCED('after %%r (step %%d) %%s() = %%r on the mutated path but %%r on a fresh Path of the same segments %%r' %% (history, step, k, a, b, list(p)))
'''


def fam_path_history(R, k, first_ops, prequery, with_T=False):
    import svgpathtools.path as P
    from svgpathtools.path import Path
    P.np = NPProxy()
    P.min, P.max = sym_min, sym_max
    P.float = float_stub
    R.bound(history_length=k, initial_segments=3, index_arguments=IDX, prequery=prequery, T2t_and_point_queried=with_T)
    R.stub('path.min/max -> If-terms', 'numbers in d() -> placeholder tokens',
           'Line.length / Line.point -> uninterpreted functions of (start, end[, t])')
    alphabet = ops_alphabet()
    nhist = 0
    WITH_D[0] = (k == 1 and not with_T)
    for first in first_ops:
        for rest in itertools.product(alphabet, repeat=k - 1):
            hist = [first] + list(rest)
            nhist += 1

            def run():
                TOK.reset()
                segs = [newline('s%d' % i) for i in range(3)]
                c = Ctx.cur
                T = lift(0.37) if with_T else None
                p = Path(*segs)
                if prequery:
                    observe(p, T)
                checks = []
                for step, (op, arg) in enumerate(hist):
                    if not apply(p, op, arg, 'n%d' % step):
                        break
                    got = observe(p, T)
                    fresh = Path(*list(p))
                    want = observe(fresh, T)
                    eqv = (p == fresh)
                    checks.append((step, got, want, eqv))
                return hist, checks

            for ctx, (kind, val) in explore(run, maxpaths=3000, logic=None):
                if kind == 'abort':
                    continue
                R.path(ctx)
                if kind != 'ok':
                    R.unexpected(ctx, '%r: unexpected %s %r' % (hist, kind, val))
                    continue
                hist_, checks = val

                def cex(m, hist=hist):
                    return {'cls': classify(hist), 'inputs': {'history': hist, 'prequery': prequery},
                            'script': REPLAY_HIST % (hist, prequery)}
                for step, got, want, eqv in checks:
                    claims = [same(nm, got[nm], want[nm]) for nm in got] + [zbool(eqv)]
                    R.ob('%s.step%d' % ('/'.join('%s%s' % (o, '' if a is None else a) for o, a in hist), step), ctx,
                         z3.And(*claims), cex=cex, timeout_ms=20000)
            if nhist % 40 == 1:
                R.sample({'history': hist, 'prequery': prequery})
    R.sample({'histories_in_family': nhist})


def classify(hist):
    ops = [o for o, _ in hist]
    if 'start=' in ops or 'end=' in ops:
        return 'stale cache after assigning Path.start / Path.end'
    return 'mutated Path differs from a fresh one after %s' % '/'.join(sorted(set(ops)))


# ----------------------------------------------------------------------------
# segment-level length caches
# ----------------------------------------------------------------------------
def fam_segment_cache(R, deg, quad_available):
    import svgpathtools.path as P
    C = {2: P.QuadraticBezier, 3: P.CubicBezier}[deg]
    R.bound(degree=deg, quad_available=quad_available, history='length(e1,d1); [reassign | reversed]; length(e2,d2)')
    R.stub('quad / segment_length -> uninterpreted K(control points, t0, t1, error, min_depth)')
    K = z3.Function('K', *([z3.RealSort()] * (2 * (deg + 1) + 4 + 1)))

    def kernel(curve, t0, t1, error, min_depth):
        args = []
        for pnt in curve.bpoints():
            args += [lift(pnt.real).e, lift(pnt.imag).e]
        args += [lift(t0).e, lift(t1).e, lift(error).e, lift(min_depth).e]
        return SR(K(*args))

    def seglen_stub(curve, start, end, start_point, end_point, error, min_depth, depth):
        return kernel(curve, start, end, error, min_depth)

    class QuadRes(tuple):
        pass

    def quad_stub(f, t0, t1, epsabs=None, limit=None):
        curve = f.__closure__[0].cell_contents if f.__closure__ else None
        return (kernel(curve, t0, t1, epsabs, 0), 0.0)

    variants = ['plain', 'reassign', 'reversed']
    for variant in variants:
        def run():
            ps = [symc('p%d' % i) for i in range(deg + 1)]
            qs = [symc('q%d' % i) for i in range(deg + 1)]
            e1, e2, d1, d2 = symr('e1'), symr('e2'), symr('d1'), symr('d2')
            c = Ctx.cur
            c.assume(e1.e > 0, e2.e > 0, d1.e >= 0, d2.e >= 0)
            with patched(P, segment_length=seglen_stub, quad=quad_stub, _quad_available=quad_available):
                seg = C(*ps)
                first = seg.length(error=e1, min_depth=d1)
                cur = ps
                target = seg
                if variant == 'reassign':
                    names = ['start', 'control', 'end'] if deg == 2 else ['start', 'control1', 'control2', 'end']
                    for nm, qv in zip(names, qs):
                        setattr(seg, nm, qv)
                    cur = qs
                elif variant == 'reversed':
                    target = seg.reversed()
                    cur = ps[::-1]
                    seg.length(error=e1, min_depth=d1)     # touches the (shared) cache of the original again
                second = target.length(error=e2, min_depth=d2)
                fresh = C(*cur).length(error=e2, min_depth=d2)
                again_orig = seg.length(error=e2, min_depth=d2) if variant == 'reversed' else None
                fresh_orig = C(*ps).length(error=e2, min_depth=d2) if variant == 'reversed' else None
            return (e1, e2, d1, d2), first, second, fresh, (ps, cur), again_orig, fresh_orig

        for ctx, (kind, val) in explore(run, maxpaths=400, logic=None):
            R.path(ctx)
            if kind != 'ok':
                R.error('unexpected %s %r' % (kind, val))
                continue
            (e1, e2, d1, d2), first, second, fresh, (ps0, cur), again_orig, fresh_orig = val

            def cex(m):
                return {'cls': 'CubicBezier length cache serves a coarser / foreign value' if deg == 3 else 'QuadraticBezier length cache',
                        'inputs': {'e1': mval(m, e1), 'e2': mval(m, e2), 'd1': mval(m, d1), 'd2': mval(m, d2), 'variant': variant,
                                   'quad_available': quad_available},
                        'script': REPLAY_CACHE % (variant, deg, variant, quad_available, mval(m, e1), mval(m, e2), mval(m, d1), mval(m, d2))}
            # served value is either the fresh one, or a cached one that is at least as accurate and for the same curve
            at_least_as_accurate = z3.And(e1.e <= e2.e, d1.e >= d2.e) if not quad_available else e1.e <= e2.e
            same_curve = z3.BoolVal(True) if variant != 'reassign' else z3.And(*[ceq(a_, b_) for a_, b_ in zip(ps0, cur)])
            ok = z3.Or(req(second, fresh), z3.And(req(second, first), at_least_as_accurate, same_curve))
            robust = [e1.e == 0.1, e2.e == z3.RealVal('1/1000000000000'), d1.e == 1, d2.e == 5]
            R.ob('deg%d.%s.%s' % (deg, variant, 'quad' if quad_available else 'noquad'), ctx, ok, cex=cex, robust=robust)
            if again_orig is not None:
                ok2 = z3.Or(req(again_orig, fresh_orig), z3.And(req(again_orig, first), at_least_as_accurate))
                R.ob('deg%d.%s.original-after-reversed' % (deg, variant), ctx, ok2, cex=cex, robust=robust)
        R.sample({'degree': deg, 'variant': variant, 'quad_available': quad_available})


REPLAY_CACHE = '''
import svgpathtools.path as P, itertools
# control points whose hashes collide in CPython (hash(-1) == hash(-2)): a cache keyed by hash() instead of the points is stale here
if %r == 'reassign':
    c_ = P.CubicBezier(-1+2j, 30+90j, 70-60j, 100+10j); c_.length()
    c_.start = -2+2j
    if c_.length() != P.CubicBezier(-2+2j, 30+90j, 70-60j, 100+10j).length():
        REPRODUCED('length() after reassigning start -1+2j -> -2+2j returns the old value')
deg, variant, quad_available, e1m, e2m, d1m, d2m = %r, %r, %r, %r, %r, %r, %r
if not quad_available: P._quad_available = False
sgn = lambda x: (x > 0) - (x < 0)
C = P.CubicBezier if deg == 3 else P.QuadraticBezier
# the solver's model fixes only how the two requests are ordered; try concrete tolerances/depths with the same ordering
for e1, e2, d1, d2 in itertools.product([1e-2, 1e-12, 0.1], [1e-2, 1e-12, 0.1], [1, 5, 9], [1, 5, 9]):
    if sgn(e1 - e2) != sgn(e1m - e2m) or sgn(d1 - d2) != sgn(d1m - d2m): continue
    ps = [0j, 30+90j, 70-60j, 100+10j][:deg+1] if deg == 3 else [0j, 50+80j, 100+0j]
    seg = C(*ps)
    seg.length(error=e1, min_depth=d1)
    cur = ps; target = seg
    if variant == 'reassign':
        qs = [p * (1.5 + 0.5j) + 3 for p in ps]
        for nm, q in zip((['start', 'control', 'end'] if deg == 2 else ['start', 'control1', 'control2', 'end']), qs): setattr(seg, nm, q)
        cur = qs
    elif variant == 'reversed':
        target = seg.reversed(); cur = ps[::-1]; seg.length(error=e1, min_depth=d1)
    got = target.length(error=e2, min_depth=d2)
    want = C(*cur).length(error=e2, min_depth=d2)
    better = C(*cur).length(error=min(e1, e2), min_depth=max(d1, d2))
    if got != want and abs(got - better) > abs(want - better):
        REPRODUCED('length(error=%%r,min_depth=%%r) after length(error=%%r,min_depth=%%r) [%%s, scipy %%s] = %%r, fresh segment gives %%r' %% (e2, d2, e1, d1, variant, quad_available, got, want))
'''


# ----------------------------------------------------------------------------
# eq => hash
# ----------------------------------------------------------------------------
def fam_eq_hash(R):
    import svgpathtools.path as P
    R.stub('hash -> uninterpreted function of the fields __hash__ reads (traced on the real code)')
    cases = {
        'Line': lambda: P.Line(1 + 2j, 3 + 4j),
        'QuadraticBezier': lambda: P.QuadraticBezier(1 + 2j, 3 + 4j, 5 + 6j),
        'CubicBezier': lambda: P.CubicBezier(1 + 2j, 3 + 4j, 5 + 6j, 7 + 8j),
        'Arc': lambda: P.Arc(0j, 2 + 1j, 30.0, False, True, 1 + 1j),
        'Path': lambda: P.Path(P.Line(0j, 1 + 1j), P.Line(1 + 1j, 0j)),
    }
    U = z3.DeclareSort('Field')
    for name, mkobj in cases.items():
        base = type(mkobj())
        reads = {'eq': set(), 'hash': set()}
        mode = [None]

        class Traced(base):
            def __getattribute__(self, nm):
                if mode[0] and not nm.startswith('__'):
                    try:
                        v = object.__getattribute__(self, nm)
                    except AttributeError:
                        raise
                    if not callable(v):
                        reads[mode[0]].add(nm)
                return object.__getattribute__(self, nm)
        a, b = mkobj(), mkobj()
        a.__class__ = Traced
        b.__class__ = Traced
        mode[0] = 'eq'
        r = (a == b)
        mode[0] = 'hash'
        hash(a)
        mode[0] = None
        fields = sorted(reads['eq'] | reads['hash'])
        fa = {f: z3.Const('a_' + f, U) for f in fields}
        fb = {f: z3.Const('b_' + f, U) for f in fields}
        hf = sorted(reads['hash'])
        H = z3.Function('H_' + name, *([U] * len(hf) + [z3.IntSort()]))
        s = z3.Solver()
        s.add(*[fa[f] == fb[f] for f in sorted(reads['eq'])])
        s.add(H(*[fa[f] for f in hf]) != H(*[fb[f] for f in hf]))
        R.obligations += 1
        R.paths += 1
        R.nontrivial += 1
        res = str(s.check())
        R.sample({'class': name, 'fields read by __eq__': sorted(reads['eq']), 'fields read by __hash__': hf})
        if res == 'unsat':
            R.discharged += 1
            continue
        extra = sorted(reads['hash'] - reads['eq'])
        R.obligations -= 1
        R.direct_cex('%s.eq=>hash' % name, {'cls': '%s: __hash__ reads %s which __eq__ ignores' % (name, ','.join(extra)),
                                           'inputs': {'hash_only_fields': extra}, 'script': REPLAY_HASH})


REPLAY_HASH = '''
cands = []
a = parse_path('M0,0 L1,1 L0,0'); b = parse_path('M0,0 L1,1 L0,0 Z'); cands.append((a, b))
a = Path(Line(0j, 1+1j)); b = Path(Line(0j, 1+1j)); b._closed = True; cands.append((a, b))
cands.append((Line(0j, 1+1j), Line(0j, 1+1j))); cands.append((Arc(0j, 2+1j, 30.0, False, True, 1+1j), Arc(0j, 2+1j, 30.0, 0, 1, 1+1j)))
cands.append((CubicBezier(0j, 1j, 1+1j, 1+0j), CubicBezier(0, 1j, 1+1j, 1.0))); cands.append((QuadraticBezier(0j, 1j, 1+0j), QuadraticBezier(0, 1j, 1)))
for a, b in cands:
    if a == b and hash(a) != hash(b):
        REPRODUCED('%r == %r but their hashes differ' % (a, b))
'''


REPLAY_EQQ = """
segs = lambda: [Line(0j, 4+3j), CubicBezier(4+3j, 6+8j, -2+5j, 1+1j), Arc(1+1j, 2+1j, 30, 0, 1, 3+2j)]
for (ka, kb) in (({'error': 1e-3}, {}), ({'error': 1e-2, 'min_depth': 2}, {'error': 1e-9}), ({}, {'min_depth': 9})):
    for first in ('length', 'point', 'none'):
        p, q = Path(*segs()), Path(*segs())
        p.length(**ka)
        if first == 'length': q.length(**kb)
        elif first == 'point': q.point(0.3)
        if not (p == q) or (p != q) or not (q == p):
            REPRODUCED('two paths of equal segments compare unequal after p.length(**%%r) and q.%%s(**%%r)' %% (ka, first, kb))
        if hash(p) != hash(q):
            REPRODUCED('two paths of equal segments hash differently after p.length(**%%r) and q.%%s(**%%r)' %% (ka, first, kb))
"""

_QLEN = z3.Function('SegLengthAtTolerance', z3.IntSort(), z3.RealSort(), z3.RealSort(), z3.RealSort())


def fam_eq_after_queries(R, n):
    """== / != / hash of two Paths built from equal segments must not depend on which length queries (with which tolerances) were
    made on either of them: the segment length is an uninterpreted function of (segment, error, min_depth), so totals cached
    under different tolerances differ."""
    from svgpathtools.path import Path
    R.bound(segments=n, queries='p.length(error=e1, min_depth=d1); q.length(error=e2, min_depth=d2) | q.point(T) | nothing')
    R.stub('segment.length -> uninterpreted function of (segment index, error, min_depth)')

    class QSeg:
        def __init__(self, k, a, b):
            self.k, self.start, self.end = k, a, b

        def length(self, t0=0, t1=1, error=None, min_depth=None):
            v = _QLEN(self.k, lift(error if error is not None else 1e-12).e, lift(min_depth if min_depth is not None else 5).e)
            Ctx.cur.assume(v > 0)
            return SR(v) * (lift(t1) - lift(t0))

        def point(self, t):
            return self.start + (self.end - self.start) * t

        def __eq__(self, o):
            return isinstance(o, QSeg) and self.k == o.k

        def __ne__(self, o):
            return not self == o

        def __hash__(self):
            return hash(self.k)

    for second in ('length', 'point', 'none'):
        def run():
            pts = [symc('v%d' % i) for i in range(n + 1)]
            e1, d1, e2, d2 = symr('e1'), symr('d1'), symr('e2'), symr('d2')
            Ctx.cur.assume(e1.e > 0, e2.e > 0, d1.e >= 0, d2.e >= 0)
            p = Path(*[QSeg(i, pts[i], pts[i + 1]) for i in range(n)])
            q = Path(*[QSeg(i, pts[i], pts[i + 1]) for i in range(n)])
            p.length(error=e1, min_depth=d1)
            if second == 'length':
                q.length(error=e2, min_depth=d2)
            elif second == 'point':
                q.point(lift(0.3))
            return (p == q), (p != q), (q == p), hash(p) == hash(q)

        for ctx, (kind, val) in explore(run, maxpaths=400, logic=None):
            R.path(ctx)
            if kind != 'ok':
                R.unexpected(ctx, 'unexpected %s %r' % (kind, val))
                continue
            eq, ne, eq2, hh = val
            cex = lambda m: {'cls': 'Path equality depends on earlier length queries', 'inputs': {'second_query': second}, 'script': REPLAY_EQQ % ()}
            R.ob('eq-after-%s' % second, ctx, z3.And(zbool(eq), z3.Not(zbool(ne)), zbool(eq2), zbool(hh)), cex=cex)
        R.sample({'second_query': second, 'segments': n})


def families(tier):
    M = 'vf.props.c16'
    fams = []
    alphabet = ops_alphabet()
    groups = {}
    for op in alphabet:
        groups.setdefault(op[0], []).append(op)
    for k in ((1, 2) if tier == 'quick' else (1, 2, 3)):
        for g, ops in groups.items():
            for pre in (True, False):
                if k >= 2 and not pre:
                    continue
                fams.append(('hist-k%d-%s-%s' % (k, g.strip('='), 'q' if pre else 'nq'), M, 'fam_path_history',
                             {'k': k, 'first_ops': ops, 'prequery': pre}))
    for g in ('start=', 'end=', 'setitem', 'insert', 'delitem', 'reverse', 'append'):
        fams.append(('hist-k1-%s-q-Tt' % g.strip('='), M, 'fam_path_history', {'k': 1, 'first_ops': groups[g], 'prequery': True, 'with_T': True}))
    for deg in (3,):
        for qa in (True, False):
            fams.append(('segcache-deg%d-%s' % (deg, 'quad' if qa else 'noquad'), M, 'fam_segment_cache', {'deg': deg, 'quad_available': qa}))
    fams.append(('eq-hash', M, 'fam_eq_hash', {}))
    for n in (1, 2):
        fams.append(('eq-after-queries-n%d' % n, M, 'fam_eq_after_queries', {'n': n}))
    return fams
