"""C11 -- every reported intersection is real, in range, with coherent parameters.
(shared harness pieces for C12 live here too)"""
import itertools

import numpy as np
import z3

from ..symx import (SR, SC, SB, explore, symc, symr, ceq, req, mval, mcval, Ctx, lift, zabs, Abort, tosc, zbool, sq)
from ..stubs import NPProxy, patched, sym_min, sym_max
from .c03 import bern, power_coeffs, REPLAY_ORACLE

META = {
    'explanation': (
        'Line x Line: the real closed form runs on symbolic end points; z3 shows every returned (t1,t2) is in [0,1]^2 with '
        'self.point(t1) = other.point(t2) and that swapping the operands returns the exchanged pair.  Line x Quadratic/Cubic '
        '(bezier_by_line_intersections): the polynomial handed to np.roots is captured and shown to be the rotated imaginary part of '
        'the curve; with np.roots stubbed by symbolic roots of that polynomial every returned (bez_t, line_t) is in range and the two '
        'points coincide; both call directions.  Bezier x Bezier subdivision: box_area acceptance is examined as a function (does '
        'area < tol bound the box diameter?) and the parameter bookkeeping of one subdivision step.  Path.intersect runs on stub '
        'segments whose intersect() returns symbolic pairs: every output triple has T = t2T(seg, t) and the de-duplication removes '
        'only entries within tol of a kept one.  Arc x Line closed form: the real branch runs with recording point_to_t methods; every common point of the full ellipse and the infinite line is among the candidate points, the branch is entered only for rotation 0 (point_to_t\'s documented domain), pairs are assembled per candidate.  Arc x Bezier: parameter pairing index by index with the t1 range filter.  Arc.point_to_t (vf/props/c11arc.py): run on a point of the ellipse given by its eccentric angle, acos/asin of its cos/sin as piecewise-linear folds in degrees, all angle loops and np.isclose tests executed: a returned t is in [0,1] and is the point (to 1e-2 degrees), None only off the arc.  The first iteration of bezier_intersections runs on symbolic boxes: no pair with a degenerate box is accepted.'),
    'outside': ['termination/depth of the subdivision', 'Arc x Arc other than two unrotated circles on different centres (candidate points, tangent cases and assembly are covered: vf/props/c11arcarc.py); Line.point_to_t with the near-end tests as free flags; Arc.point_to_t only for rotation 0, concrete radii (2x1, circle; thorough 1x3), points of the ellipse, '
                'with the near-start / near-end tests as free flags',
                'the 1e-5 / 1e-3 numeric margins (exact coincidence under exact roots is what is shown)'],
    'assumptions': ['np.roots returns roots of the polynomial it is given (contract)'],
}

NAMES = {1: 'Line', 2: 'QuadraticBezier', 3: 'CubicBezier'}


def cls_of(deg):
    import svgpathtools.path as P
    return {1: P.Line, 2: P.QuadraticBezier, 3: P.CubicBezier}[deg]


REPLAY_LL = '''
a, b, c, d = %r
l1, l2 = Line(a, b), Line(c, d)
r12 = l1.intersect(l2); r21 = l2.intersect(l1)
for t1, t2 in r12:
    if not (0 <= t1 <= 1 and 0 <= t2 <= 1): REPRODUCED('parameters out of range: %%r' %% (r12,))
    if abs(l1.point(t1) - l2.point(t2)) > 1e-7 * (1 + abs(a) + abs(b) + abs(c) + abs(d)): REPRODUCED('reported pair %%r is not a common point: %%r vs %%r' %% ((t1, t2), l1.point(t1), l2.point(t2)))
if sorted((round(x, 9), round(y, 9)) for x, y in r12) != sorted((round(y, 9), round(x, 9)) for x, y in r21):
    REPRODUCED('swap asymmetry: %%r vs %%r' %% (r12, r21))
# completeness: exact crossing of the two segments by rational arithmetic
from fractions import Fraction as F
def fr(z): return F(z.real), F(z.imag)
(ax, ay), (bx, by), (cx, cy), (dx, dy) = fr(a), fr(b), fr(c), fr(d)
den = (bx - ax) * (dy - cy) - (by - ay) * (dx - cx)
if den != 0:
    t = ((cx - ax) * (dy - cy) - (cy - ay) * (dx - cx)) / den
    u = ((cx - ax) * (by - ay) - (cy - ay) * (bx - ax)) / den
    d1 = abs(b - a); d2 = abs(d - c)
    sin_angle = abs(float(den)) / (d1 * d2)
    if 0 < t < 1 and 0 < u < 1 and sin_angle > 0.1:
        hits = [p for p in r12 if abs(p[0] - float(t)) < 1e-4 and abs(p[1] - float(u)) < 1e-4]
        if len(hits) != 1: REPRODUCED('the segments cross transversally at (t,u)=(%%r,%%r) but intersect returned %%r' %% (float(t), float(u), r12))
'''


def fam_line_line(R, complete, anchored=False):
    """complete=False: C11 obligations (soundness); True: C12 obligations"""
    import svgpathtools.path as P
    P.np = NPProxy()
    R.bound(values='unbounded reals' if not complete else 'crossing strictly inside both segments, angle >= 6 degrees, segment lengths >= 0.01',
            first_line_start_anchored_at_origin=anchored)

    def run():
        a, b, c, d = (SC(0, 0) if anchored else symc('a')), symc('b'), symc('c'), symc('d')
        cx = Ctx.cur
        cx.assume(z3.Not(ceq(a, b)), z3.Not(ceq(c, d)), z3.Not(z3.And(ceq(a, c), ceq(b, d))))
        u1 = u2 = None
        if complete:
            u1, u2 = symr('u1'), symr('u2')
            cx.assume(u1.e > 0, u1.e < 1, u2.e > 0, u2.e < 1, ceq(bern([a, b], u1), bern([c, d], u2)))
            d1, d2 = b - a, d - c
            cr = d1.real * d2.imag - d1.imag * d2.real
            n1 = d1.real * d1.real + d1.imag * d1.imag
            n2 = d2.real * d2.real + d2.imag * d2.imag
            cx.assume((cr * cr).e >= (n1 * n2 * 0.0109).e)        # sin^2(6 deg) = 0.010926
            cx.assume(n1.e >= 0.0001, n2.e >= 0.0001)
        l1, l2 = P.Line(a, b), P.Line(c, d)
        with patched(P, min=sym_min, max=sym_max):
            r12 = l1.intersect(l2)
            r21 = l2.intersect(l1)
        return (a, b, c, d), (u1, u2), r12, r21

    for ctx, (kind, val) in explore(run, maxpaths=2000):
        R.path(ctx)
        if kind != 'ok':
            R.unexpected(ctx, 'unexpected %s %r' % (kind, val))
            continue
        (a, b, c, d), (u1, u2), r12, r21 = val

        def cex(m):
            pts = tuple(mcval(m, v) for v in (a, b, c, d))
            return {'cls': 'Line x Line %s' % ('completeness' if complete else 'soundness'), 'inputs': {'lines': str(pts)}, 'script': REPLAY_LL % (pts,)}
        if not complete:
            claims = []
            for t1, t2 in r12:
                t1, t2 = lift(t1), lift(t2)
                claims += [t1.e >= 0, t1.e <= 1, t2.e >= 0, t2.e <= 1, ceq(bern([a, b], t1), bern([c, d], t2))]
            R.ob('LL.reported-pairs-are-common-points', ctx, z3.And(*claims) if claims else z3.BoolVal(True), cex=cex, timeout_ms=60000)
            sw = z3.BoolVal(len(r12) == len(r21))
            if len(r12) == len(r21):
                sw = z3.And(*[z3.And(req(x[0], y[1]), req(x[1], y[0])) for x, y in zip(r12, r21)]) if r12 else z3.BoolVal(True)
            R.ob('LL.swap-symmetry', ctx, sw, cex=cex, timeout_ms=60000)
        else:
            ok = z3.BoolVal(len(r12) == 1)
            if len(r12) == 1:
                ok = z3.And(req(r12[0][0], u1), req(r12[0][1], u2))
            R.ob('LL.crossing-reported-once', ctx, ok, cex=cex, timeout_ms=60000,
                 robust=[z3.And(*[z3.And(zabs(v.real.e) <= 50, zabs(v.imag.e) <= 50) for v in (a, b, c, d)])])
        R.sample({'pairs': len(r12), 'decisions': ''.join('TF'[not d_[0]] for d_ in ctx.decisions[:ctx.pos])})


# ----------------------------------------------------------------------------
# Line x Bezier
# ----------------------------------------------------------------------------
REPLAY_LB = REPLAY_ORACLE + '''
ps = %r; ln = %r
bez = bpoints2bezier(ps); line = Line(*ln)
r1 = bez.intersect(line); r2 = line.intersect(bez)
scale = 1 + max(abs(p) for p in ps) + abs(ln[0]) + abs(ln[1])
for (tb, tl) in r1:
    if not (0 <= tb <= 1 and 0 <= tl <= 1): REPRODUCED('out of range %%r' %% (r1,))
    if abs(bez.point(tb) - line.point(tl)) > 1e-5 * scale: REPRODUCED('%%r.intersect(%%r) reports %%r but the points are %%r / %%r' %% (bez, line, (tb, tl), bez.point(tb), line.point(tl)))
if sorted((round(x, 7), round(y, 7)) for x, y in r1) != sorted((round(y, 7), round(x, 7)) for x, y in r2):
    REPRODUCED('swap asymmetry: %%r vs %%r' %% (r1, r2))
# completeness by dense sign changes of the signed distance to the line
d = ln[1] - ln[0]
def side(t):
    p = bez.point(t) - ln[0]; return (p.real * d.imag - p.imag * d.real)
N = 20000; cnt = []
prev, iprev = side(0.0), 0
for i in range(1, N + 1):
    cur = side(i / N)
    if cur == 0: continue            # a sample exactly on the line: the sign change is seen across it
    if prev * cur < 0:
        t = (i + iprev) / 2 / N; p = bez.point(t) - ln[0]
        lam = (p.real * d.real + p.imag * d.imag) / abs(d) ** 2
        if 1e-3 < lam < 1 - 1e-3 and 1e-3 < t < 1 - 1e-3: cnt.append((t, lam))
    prev, iprev = cur, i
for (t, lam) in cnt:
    hits = [p for p in r1 if abs(p[0] - t) < 1e-3 and abs(p[1] - lam) < 1e-3]
    if len(hits) != 1: REPRODUCED('crossing near (t,line_t)=(%%r,%%r) reported %%d times: %%r' %% (t, lam, len(hits), r1))
'''


def fam_line_bezier(R, deg, nroots, anchored=True):
    """soundness of bezier_by_line_intersections + both call directions"""
    import svgpathtools.path as P
    import svgpathtools.bezier as B
    import svgpathtools.polytools as PT
    P.np = NPProxy()
    R.bound(degree=deg, real_roots_returned=nroots, line_start_anchored_at_origin=anchored)
    R.stub('np.roots -> captures the polynomial; returns %d symbolic real roots of it (assumed p(r)=0), pairwise separated' % nroots)
    cap = {}

    def run():
        ps = [symc('p%d' % i) for i in range(deg + 1)]
        l0, l1 = (SC(0, 0) if anchored else symc('l0')), symc('l1')
        cx = Ctx.cur
        cx.assume(z3.Not(ceq(l0, l1)), z3.Or(*[z3.Not(ceq(p, ps[0])) for p in ps[1:]]))
        rs = [symr('r%d' % i) for i in range(nroots)]
        for i, x in enumerate(rs):
            for y in rs[i + 1:]:
                cx.assume(zabs(x.e - y.e) >= 1e-3)

        def roots_stub(p):
            co = list(np.asarray(p.coeffs if hasattr(p, 'coeffs') else p))
            cap['p'] = co
            for r in rs:
                v = lift(0)
                for cf in co:
                    v = v * r + cf
                cx.assume(v.e == 0)
            return [SC(r, 0) for r in rs] + [SC(symr('cx%d' % i), 1) for i in range(deg - nroots)]
        bez = cls_of(deg)(*ps)
        line = P.Line(l0, l1)
        with patched(PT, np=NPProxy(roots=roots_stub)), patched(P, min=sym_min, max=sym_max):
            r1 = bez.intersect(line)
            r2 = line.intersect(bez)
        return ps, (l0, l1), rs, r1, r2, cap.get('p')

    for ctx, (kind, val) in explore(run, maxpaths=3000, logic=None):
        R.path(ctx)
        if kind != 'ok':
            R.unexpected(ctx, 'unexpected %s %r' % (kind, val))
            continue
        ps, (l0, l1), rs, r1, r2, poly = val

        def cex(m):
            pts = [mcval(m, p) for p in ps]
            return {'cls': 'Line x %s' % NAMES[deg], 'inputs': {'ps': str(pts), 'line': str((mcval(m, l0), mcval(m, l1)))},
                    'script': REPLAY_LB % (pts, (mcval(m, l0), mcval(m, l1)))}
        claims = []
        for tb, tl in r1:
            tb, tl = lift(tb), lift(tl)
            claims += [tb.e >= 0, tb.e <= 1, tl.e >= 0, tl.e <= 1, ceq(bern(ps, tb), bern([l0, l1], tl))]
        R.ob('L%s.reported-pairs-are-common-points' % 'LQC'[deg - 1], ctx, z3.And(*claims) if claims else z3.BoolVal(True),
             cex=cex, timeout_ms=90000)
        sw = z3.BoolVal(len(r1) == len(r2))
        if len(r1) == len(r2) and r1:
            sw = z3.And(*[z3.And(req(x[0], y[1]), req(x[1], y[0])) for x, y in zip(r1, r2)])
        R.ob('L%s.swap-symmetry' % 'LQC'[deg - 1], ctx, sw, cex=cex, timeout_ms=60000)
        if R.paths % 10 == 1:
            R.sample({'degree': deg, 'pairs': len(r1), 'decisions': ''.join('TF'[not d_[0]] for d_ in ctx.decisions[:ctx.pos])})


def fam_line_bezier_poly(R, deg):
    """the polynomial handed to np.roots vanishes exactly where the curve meets the carrier line"""
    import svgpathtools.path as P
    import svgpathtools.polytools as PT
    P.np = NPProxy()
    R.bound(degree=deg)
    cap = {}

    def run():
        ps = [symc('p%d' % i) for i in range(deg + 1)]
        l0, l1 = symc('l0'), symc('l1')
        cx = Ctx.cur
        cx.assume(z3.Not(ceq(l0, l1)), z3.Or(*[z3.Not(ceq(p, ps[0])) for p in ps[1:]]))
        # keep the bounding-box pre-filter open
        def roots_stub(p):
            cap['p'] = list(np.asarray(p.coeffs if hasattr(p, 'coeffs') else p))
            return []
        from svgpathtools.bezier import bezier_by_line_intersections
        with patched(PT, np=NPProxy(roots=roots_stub)):
            bezier_by_line_intersections(cls_of(deg)(*ps), P.Line(l0, l1))
        return ps, (l0, l1), cap['p']

    for ctx, (kind, val) in explore(run, maxpaths=50):
        R.path(ctx, nontrivial=True)
        if kind != 'ok':
            R.unexpected(ctx, 'unexpected %s %r' % (kind, val))
            continue
        ps, (l0, l1), co = val
        t = symr('t')
        v = lift(0)
        for cf in co:
            v = v * t + cf
        w = bern(ps, t) - l0
        d = l1 - l0
        crossv = w.imag * d.real - w.real * d.imag       # signed distance * |d|
        # v(t) == crossv / |d| : same zero set, same sign; shown as v*|d| == cross with |d| the sqrt atom
        nd = abs(d)
        R.ob('deg%d.polynomial=signed-distance-to-carrier-line' % deg, ctx, (v * nd).e == crossv.e, timeout_ms=90000,
             cex=lambda m: {'cls': 'bezier_by_line_intersections polynomial', 'inputs': str(m)[:200],
                            'script': REPLAY_LB % ([mcval(m, p) for p in ps], (mcval(m, l0), mcval(m, l1)))})
        R.sample({'degree': deg})


# ----------------------------------------------------------------------------
# Bezier x Bezier subdivision: acceptance test
# ----------------------------------------------------------------------------
REPLAY_AREA = '''
b1 = CubicBezier(0j, 1+1e-13j, 2+0j, 3+0j)
b2 = CubicBezier(0.3-1j, 0.3+1e-13-0.3j, 0.3+1j, 0.3+3j)
r = b1.intersect(b2)
for t1, t2 in r:
    if abs(b1.point(t1) - b2.point(t2)) > 1e-3:
        REPRODUCED('%r.intersect(%r) = %r but point(t1) = %r, point(t2) = %r' % (b1, b2, r, b1.point(t1), b2.point(t2)))
'''


def fam_acceptance(R):
    """bezier_intersections accepts a pair when box_area < tol_deC for both boxes:
    does a small area bound the extent of the box (and so the distance of the two
    reported points)?"""
    from svgpathtools.bezier import box_area
    R.bound(box='symbolic xmin<=xmax, ymin<=ymax', tol='symbolic, 0 < tol <= 1e-8')

    def run():
        box = [symr(n) for n in ('xmin', 'xmax', 'ymin', 'ymax')]
        tol = symr('tol')
        Ctx.cur.assume(box[0].e <= box[1].e, box[2].e <= box[3].e, tol.e > 0, tol.e <= 1e-8)
        return box, tol, box_area(*box)

    for ctx, (kind, val) in explore(run, maxpaths=10):
        R.path(ctx, nontrivial=True)
        if kind != 'ok':
            R.unexpected(ctx, 'unexpected %s %r' % (kind, val))
            continue
        box, tol, area = val
        w, h = box[1] - box[0], box[3] - box[2]
        R.ob('accepted-box-is-small', ctx, z3.Implies(lift(area).e < tol.e, z3.And(w.e <= 1e-3, h.e <= 1e-3)),
             cex=lambda m: {'cls': 'subdivision accepts a pair by box AREA (a long thin box has a small area)',
                            'inputs': {'box': [mval(m, b) for b in box], 'tol': mval(m, tol)}, 'script': REPLAY_AREA})
        R.sample({'claim': 'box_area < tol  =>  width, height <= 1e-3'})


REPLAY_DEGENERATE = '''
# straight, axis-parallel Beziers: their boxes have zero area whatever their length
pairs = [(CubicBezier(0j, 3+0j, 6+0j, 10+0j), CubicBezier(2-1j, 2+2j, 2+5j, 2+9j)),
         (QuadraticBezier(0j, 5+0j, 40+0j), QuadraticBezier(30-1j, 30+1j, 30+9j)),
         (CubicBezier(1+1j, 1+4j, 1+5j, 1+20j), QuadraticBezier(-5+3j, 0+3j, 2+3j))]
for b1, b2 in pairs:
    for x, y in ((b1, b2), (b2, b1)):
        r = x.intersect(y)
        for t1, t2 in r:
            if abs(x.point(t1) - y.point(t2)) > 1e-3:
                REPRODUCED('%r.intersect(%r) = %r but point(t1) = %r, point(t2) = %r' % (x, y, r, x.point(t1), y.point(t2)))
'''


REPLAY_ONEBOX = '''
# crossings where one of the two curves has an axis-parallel tangent (its sub-boxes get flat quickly) while the other passes obliquely
def through(p0, p2, s, pt):
    c = (pt - (1 - s)**2*p0 - s**2*p2)/(2*s*(1 - s)); return QuadraticBezier(p0, c, p2)
s_curve = CubicBezier(-0.256j, 1 + 0.384j, 2 - 0.576j, 3 + 0.864j)          # x = 3t, y = 4(t-0.4)^3: flat inflection at (1.2, 0)
flat_pt = 1.2 + 0j
pairs = [(s_curve, through(flat_pt - 0.9 - 1.2j, flat_pt + 0.93 + 1.41j, 0.37, flat_pt), flat_pt)]
par = QuadraticBezier(0j, 1 + 2j, 2 + 0j)                                    # apex (1, 1) at t = 0.5
pairs.append((par, through(0.31 - 0.2j, 1.77 + 2.3j, 0.41, 1 + 1j), 1 + 1j))
for a, b, where in pairs:
    size = max(abs(z) for s_ in (a, b) for z in s_.bpoints()) + 1
    for x, y in ((a, b), (b, a)):
        for t1, t2 in x.intersect(y):
            d = abs(x.point(t1) - y.point(t2))
            if d > 1e-5 * size or abs(x.point(t1) - where) > 1e-5 * size:
                REPRODUCED('%r.intersect(%r) reports (%r, %r): the points are %r apart, %r from the crossing %r' % (x, y, t1, t2, d, abs(x.point(t1) - where), where))
'''


def fam_subdivision_step(R):
    """the first iteration of the real bezier_intersections on two curves known only through their bounding boxes: which pairs
    of boxes are accepted (reported as an intersection at the mid parameters) and which are dropped."""
    import svgpathtools.bezier as B
    from ..stubs import sym_min, sym_max
    R.bound(iteration='first (depth 0); the split branch is cut', boxes='symbolic, xmin<=xmax, ymin<=ymax', tol_deC=1e-8)
    R.stub('bezier_bounding_box -> symbolic box of the stub curve', 'bezier_point -> a point inside the box', 'halve_bezier -> cut (path abandoned)',
           'bezier.min/max -> If-terms')

    class Crv(list):
        def __init__(self, tag):
            self.box = [symr(tag + n) for n in ('xmin', 'xmax', 'ymin', 'ymax')]
            Ctx.cur.assume(self.box[0].e <= self.box[1].e, self.box[2].e <= self.box[3].e)
            self.pt = symc(tag + 'pt')
            Ctx.cur.assume(self.box[0].e <= self.pt.real.e, self.pt.real.e <= self.box[1].e, self.box[2].e <= self.pt.imag.e, self.pt.imag.e <= self.box[3].e)

        def __eq__(self, o):
            return self is o
        __hash__ = None

    def cut(*a, **k):
        raise Abort()

    def run():
        c1, c2 = Crv('a_'), Crv('b_')
        with patched(B, bezier_bounding_box=lambda c: tuple(c.box), bezier_point=lambda c, t: c.pt, halve_bezier=cut, min=sym_min, max=sym_max):
            r = B.bezier_intersections(c1, c2, 2e-8, tol=1e-8, tol_deC=1e-8)
        return c1, c2, r

    for ctx, (kind, val) in explore(run, maxpaths=200):
        if kind == 'abort':
            continue
        R.path(ctx, nontrivial=True)
        if kind != 'ok':
            R.unexpected(ctx, 'unexpected %s %r' % (kind, val))
            continue
        c1, c2, r = val
        ext = [c1.box[1] - c1.box[0], c1.box[3] - c1.box[2], c2.box[1] - c2.box[0], c2.box[3] - c2.box[2]]
        if r:
            R.ob('accepted.mid-parameters', ctx, z3.BoolVal(len(r) == 1 and r[0] == (0.5, 0.5)))
            # (B) a zero-area box that is not a point says nothing about the curve's size: must never be accepted
            R.ob('accepted-boxes-are-not-degenerate', ctx, z3.And(*[e.e > 0 for e in ext]),
                 cex=lambda m: {'cls': 'subdivision accepts a pair whose box is degenerate (zero width or height, any length)',
                                'inputs': {'box1': [mval(m, b) for b in c1.box], 'box2': [mval(m, b) for b in c2.box]}, 'script': REPLAY_DEGENERATE})
            # (C) both boxes have a small area (the subdivision's own stopping rule, for BOTH curves)
            R.ob('both-accepted-boxes-have-area<tol', ctx, z3.And((ext[0] * ext[1]).e < 1e-8, (ext[2] * ext[3]).e < 1e-8),
                 cex=lambda m: {'cls': 'subdivision accepts a pair although one of the two boxes is still large',
                                'inputs': {'box1': [mval(m, b) for b in c1.box], 'box2': [mval(m, b) for b in c2.box]}, 'script': REPLAY_ONEBOX})
            # (A) accepted boxes are small (known finding: thin boxes)
            R.ob('accepted-boxes-are-small', ctx, z3.And(*[e.e <= 1e-3 for e in ext]),
                 extra=[e.e > 0 for e in ext] + [(ext[0] * ext[1]).e < 1e-8, (ext[2] * ext[3]).e < 1e-8],
                 cex=lambda m: {'cls': 'subdivision accepts a pair by box AREA (a long thin box has a small area)',
                                'inputs': {'box1': [mval(m, b) for b in c1.box], 'box2': [mval(m, b) for b in c2.box]}, 'script': REPLAY_AREA})
        R.sample({'result': str(r)[:60]})


REPLAY_ARCLINE = """
import math
rot, rx, ry = %r
arcs = [Arc(complex(-rx, 0) * complex(math.cos(math.radians(rot)), math.sin(math.radians(rot))) + 1+1j, complex(rx, ry), rot, la, sw,
            complex(0, ry) * complex(math.cos(math.radians(rot)), math.sin(math.radians(rot))) + 1+1j) for la in (0, 1) for sw in (0, 1)]
lines = [Line(-3-2j, 5+4j), Line(1-5j, 1+6j), Line(-4+1.5j, 6+1.5j), Line(0.2-4j, 2.5+5j), Line(4+3j, -3-1j)]
for arc in arcs:
    for ln in lines:
        for x, y, swap in ((arc, ln, False), (ln, arc, True)):
            try:
                r = x.intersect(y)
            except (ValueError, AssertionError):
                continue            # a refusal is tolerated
            for t1, t2 in r:
                ta, tl = (t2, t1) if swap else (t1, t2)
                if not (0 <= ta <= 1 and 0 <= tl <= 1) or abs(arc.point(ta) - ln.point(tl)) > 1e-3 * (1 + rx + ry):
                    REPRODUCED('%%r.intersect(%%r) = %%r but arc.point(%%r) = %%r, line.point(%%r) = %%r' %% (x, y, r, ta, arc.point(ta), tl, ln.point(tl)))
        # completeness on the unrotated arcs: crossings found by sampling
        if rot == 0:
            N = 4000; found = []
            prev = None
            for i in range(N + 1):
                p = arc.point(i / N) - ln.start; d = ln.end - ln.start
                sd = p.real * d.imag - p.imag * d.real
                lam = (p.real * d.real + p.imag * d.imag) / abs(d) ** 2
                if prev is not None and prev[0] * sd < 0 and 0.01 < lam < 0.99 and 0.01 < i / N < 0.99: found.append(i / N)
                if sd != 0: prev = (sd, i)
            got = arc.intersect(ln)
            for t in found:
                if not any(abs(t - g[0]) < 2e-3 for g in got):
                    REPRODUCED('%%r crosses %%r near arc parameter %%r but intersect() = %%r' %% (arc, ln, t, got))
"""


def fam_arc_line_candidates(R, radii=(2.0, 1.0), none_pattern=None, line='slope'):
    """Arc.intersect(Line), closed-form branch: which points are handed to the two point_to_t methods, under which condition, and
    how their answers are assembled.  The arc is known by centre, radii and rotation (symbolic); Arc.point_to_t / Line.point_to_t are
    recorders (their own correctness is not encoded)."""
    import svgpathtools.path as P
    from svgpathtools.path import Arc, Line
    P.np = NPProxy()
    R.bound(arc='centre, rotation symbolic; radii %r' % (radii,), line=('the line through (0,c) and (1,c+m), c, m symbolic' if line == 'slope' else 'vertical through (k,0), (k,1)' if line == 'vertical' else 'symbolic end points') if none_pattern is None else 'concrete',
            point_to_t_answers='always a parameter' if none_pattern is None else 'None for candidates %r' % (none_pattern,))
    R.stub('Arc.point_to_t / Line.point_to_t -> recorders returning fresh parameters (Arc.point_to_t may also answer None)',
           'Arc._parameterize -> free centre', 'complex() -> symbolic complex', 'the Bezier branch (rotated arcs) -> marker')
    calls = []
    orig = Arc._parameterize

    def cplx(re=0, im=0):
        if isinstance(re, (SR, SC)) or isinstance(im, SR):
            return tosc(re) + tosc(im) * 1j
        return complex(re, im)

    def run():
        del calls[:]
        cx = Ctx.cur
        ctr = symc('ctr')

        def fake(self):
            self.center = ctr
            self.theta = self.delta = None
        Arc._parameterize = fake
        a_pt, l_pt = Arc.point_to_t, Line.point_to_t
        try:
            rx, ry, rot = lift(radii[0]), lift(radii[1]), symr('rot')
            cx.assume(z3.Not(ceq(symc('a0'), symc('a1'))))
            if none_pattern is None:
                arc = Arc(symc('a0'), complex(*radii), rot, True, True, symc('a1'))
                if line == 'slope':
                    # every non-vertical line is the line through (0, c) and (1, c + m); its end points only matter to Line.point_to_t (a recorder here)
                    c0, m0 = symr('c'), symr('m')
                    l0, l1 = SC(0, c0), SC(1, c0 + m0)
                elif line == 'vertical':
                    k0 = symr('k')
                    l0, l1 = SC(k0, 0), SC(k0, 1)
                else:
                    l0, l1 = symc('l0'), symc('l1')
                    cx.assume(z3.Not(ceq(l0, l1)))
            else:
                cx.assume(rot.e == 0)
                cx.assume(ctr.real.e == 1, ctr.imag.e == 1)
                arc = Arc(symc('a0'), complex(*radii), rot, True, True, symc('a1'))
                l0, l1 = tosc(-3 - 2j), tosc(5 + 4j)
            ln = Line(l0, l1)

            def arc_pt(self, p):
                k = len([c for c in calls if c[0] == 'arc'])
                none = (none_pattern is not None and k in none_pattern)
                t = None if none else symr('ta%d' % k)
                calls.append(('arc', tosc(p), t, self.rotation))
                return t

            def line_pt(self, p):
                k = len([c for c in calls if c[0] == 'line'])
                t = symr('tl%d' % k)
                calls.append(('line', tosc(p), t, None))
                return t
            Arc.point_to_t, Line.point_to_t = arc_pt, line_pt

            class Marker(Exception):
                pass

            def no_poly(*a, **k):
                raise Marker()
            try:
                with patched(P, complex=cplx, polyroots01=no_poly):
                    r = arc.intersect(ln)
            except Marker:
                r = 'bezier-branch'
            return arc, ln, ctr, rx, ry, rot, l0, l1, r, list(calls)
        finally:
            Arc._parameterize = orig
            Arc.point_to_t, Line.point_to_t = a_pt, l_pt

    for ctx, (kind, val) in explore(run, maxpaths=4000, logic=None):
        R.path(ctx)
        if kind != 'ok':
            R.unexpected(ctx, 'unexpected %s %r' % (kind, val))
            continue
        arc, ln, ctr, rx, ry, rot, l0, l1, r, cl = val

        def cex(m):
            inp = (mval(m, rot), max(0.3, abs(mval(m, rx))), max(0.3, abs(mval(m, ry))))
            return {'cls': 'Arc x Line closed form', 'inputs': {'rotation': inp[0], 'rx': inp[1], 'ry': inp[2]}, 'script': REPLAY_ARCLINE % (inp,)}
        if r == 'bezier-branch':
            continue
        robust_rot = [rot.e >= 10, rot.e <= 170, rx.e >= 0.5, rx.e <= 5, ry.e >= 0.5, ry.e <= 5]
        arc_calls = [c for c in cl if c[0] == 'arc']
        # point_to_t is documented for rotation == 0 only: the closed form may only be entered by unrotated arcs
        R.ob('closed-form-only-for-unrotated-arcs', ctx, rot.e == 0, cex=cex, robust=robust_rot)
        # completeness of the candidate points: every common point of the full ellipse and the infinite line is a candidate
        w = symc('w')
        u, v = w.real - ctr.real, w.imag - ctr.imag
        d = l1 - l0
        hyp = [rot.e == 0, (u * u * ry * ry + v * v * rx * rx).e == (rx * rx * ry * ry).e,
               ((w.real - l0.real) * d.imag - (w.imag - l0.imag) * d.real).e == 0]
        cands = [c[1] for c in arc_calls]
        claim = z3.Or(*[ceq(w, p) for p in cands]) if cands else z3.BoolVal(False)
        if none_pattern is None:
          R.ob('every-common-point-is-a-candidate', ctx, claim, extra=hyp, cex=cex, timeout_ms=60000,
             robust=[rx.e >= 0.5, rx.e <= 5, ry.e >= 0.5, ry.e <= 5, zabs(l0.real.e) <= 6, zabs(l0.imag.e) <= 6, zabs(l1.real.e) <= 6, zabs(l1.imag.e) <= 6,
                     zabs(ctr.real.e) <= 3, zabs(ctr.imag.e) <= 3, zabs(d.real.e) + zabs(d.imag.e) >= 1] + hyp + [z3.Not(claim)] +
                    [z3.Or(zabs((w.real - p.real).e) >= 0.05, zabs((w.imag - p.imag).e) >= 0.05) for p in cands])
        else:
          pass
        # assembly: one pair per candidate for which both methods answered, in candidate order, parameters not mixed up
        want = []
        for c in arc_calls:
            if c[2] is None:
                continue
            lc = [x for x in cl if x[0] == 'line' and x[1] is c[1] or (x[0] == 'line' and z3.eq(x[1].real.e, c[1].real.e) and z3.eq(x[1].imag.e, c[1].imag.e))]
            if not lc:
                want = None
                break
            want.append((c[2], lc[0][2]))
        ok = want is not None and len(r) == len(want) and all(len(g) == 2 and g[0] is a_ and g[1] is b_ for g, (a_, b_) in zip(r, want))
        R.ob('pairs=(arc parameter, line parameter) of the same candidate', ctx, z3.BoolVal(bool(ok)), cex=cex, robust=[rot.e == 0])
        if R.paths % 40 == 1:
            R.sample({'candidates': len(cands), 'pairs': len(r)})


def fam_arc_bezier_pairing(R, nroots):
    """Arc.intersect(Bezier): the parameters t2 (roots of |u1(B(t))|^2 - 1 in [0,1]) and t1 = phase2t(phase(u1(B(t2)))) are paired
    index by index and only pairs with 0 <= t1 <= 1 are kept."""
    import svgpathtools.path as P
    from svgpathtools.path import Arc, QuadraticBezier
    P.np = NPProxy()
    R.bound(roots=nroots)
    R.stub('polyroots01 -> %d symbolic roots' % nroots, 'phase / phase2t -> uninterpreted (phase2t(phase(u1poly(t2))) = T1(t2))', 'u1transform -> identity on the polynomial')
    T1 = z3.Function('T1', z3.RealSort(), z3.RealSort())
    orig = Arc._parameterize

    class PolyStub:
        def __init__(self):
            pass

        def __call__(self, t):
            return ('u1poly-at', lift(t))

        def __pow__(self, n):
            return self

        def __add__(self, o):
            return self
        __radd__ = __sub__ = __rsub__ = __mul__ = __rmul__ = __add__

    def run():
        Arc._parameterize = lambda self: None
        try:
            arc = Arc(0j, 2 + 1j, 30.0, True, True, 1 + 1j)
            arc.center = 0j
            bez = QuadraticBezier(0j, 1 + 1j, 2 + 0j)
            roots = [symr('root%d' % i) for i in range(nroots)]
            arc.u1transform = lambda z: z
            arc.phase2t = lambda ph: SR(T1(ph[1].e))
            ps = PolyStub()
            with patched(P, polyroots01=lambda p: list(roots), phase=lambda z: z, real=lambda p: ps, imag=lambda p: ps):
                P_np = P.np

                class NPX(NPProxy):
                    pass
                P.np = NPProxy(poly1d=lambda p: ps)
                try:
                    r = arc.intersect(bez)
                finally:
                    P.np = P_np
            return roots, r
        finally:
            Arc._parameterize = orig

    for ctx, (kind, val) in explore(run, maxpaths=2000, logic=None):
        R.path(ctx)
        if kind != 'ok':
            R.unexpected(ctx, 'unexpected %s %r' % (kind, val))
            continue
        roots, r = val

        def cex(m):
            return {'cls': 'Arc x Bezier pairing', 'inputs': {'roots': [mval(m, x) for x in roots]}, 'script': REPLAY_ARCBEZ}
        # every reported pair is (T1(t2), t2) of one root, in range
        cl = [z3.And(lift(a).e == T1(lift(b).e), lift(a).e >= 0, lift(a).e <= 1, lift(b).e >= 0, lift(b).e <= 1, z3.Or(*[lift(b).e == x.e for x in roots])) for a, b in r]
        R.ob('reported-pairs-are-aligned', ctx, z3.And(*cl) if cl else z3.BoolVal(True), cex=cex)
        # every root in range whose arc parameter is in range is reported
        for x in roots:
            inr = z3.And(x.e >= 0, x.e <= 1, T1(x.e) >= 0, T1(x.e) <= 1)
            R.ob('in-range-root-reported', ctx, z3.Implies(inr, z3.Or(*[z3.And(lift(b).e == x.e, lift(a).e == T1(x.e)) for a, b in r]) if r else z3.BoolVal(False)), cex=cex)
        R.sample({'roots': nroots, 'pairs': len(r)})


REPLAY_ARCBEZ = """
arcs = [Arc(0j, 2+1j, 0, 0, 1, 3+1j), Arc(0j, 2+1j, 30, 1, 0, 3+1j), Arc(1+1j, 2+2j, 0, 0, 0, 3+1j), Arc(-1+0j, 1.5+1j, -40, 1, 1, 1.5+0.5j)]
bezs = [QuadraticBezier(-2-2j, 1+6j, 4-2j), CubicBezier(-3+0j, 0+4j, 2-4j, 5+1j), QuadraticBezier(0-3j, 3+1j, 0+4j), CubicBezier(-2+2j, 6+2j, -3-2j, 4-1j),
        Line(-3-2j, 5+4j)]
for arc in arcs:
    for bz in bezs:
        if isinstance(bz, Line) and arc.rotation == 0: continue
        for x, y, swap in ((arc, bz, False), (bz, arc, True)):
            try:
                r = x.intersect(y)
            except (ValueError, AssertionError):
                continue
            for t1, t2 in r:
                ta, tb = (t2, t1) if swap else (t1, t2)
                if not (0 <= ta <= 1 and 0 <= tb <= 1) or abs(arc.point(ta) - bz.point(tb)) > 1e-3 * 8:
                    REPRODUCED('%r.intersect(%r) = %r but arc.point(%r) = %r, other.point(%r) = %r' % (x, y, r, ta, arc.point(ta), tb, bz.point(tb)))
"""


# ----------------------------------------------------------------------------
# Path.intersect on stub segments
# ----------------------------------------------------------------------------
class ISeg:
    def __init__(self, tag, k, npairs, table):
        self.tag, self.k = tag, k
        self.l = symr('%sl%d' % (tag, k))
        self.start = symc('%sa%d' % (tag, k))
        self.end = symc('%sb%d' % (tag, k))
        self.table = table
        self.fx = z3.Function('%sfx%d' % (tag, k), z3.RealSort(), z3.RealSort())
        self.fy = z3.Function('%sfy%d' % (tag, k), z3.RealSort(), z3.RealSort())

    def length(self, t0=0, t1=1, error=None, min_depth=None):
        return self.l

    def point(self, t):
        t = lift(t)
        return SC(SR(self.fx(t.e)), SR(self.fy(t.e)))

    def intersect(self, other, tol=None):
        return list(self.table.get((self.k, other.k), []))

    def __repr__(self):
        return '%sseg%d' % (self.tag, self.k)


def fam_path_intersect(R, n1, n2, hits):
    """hits: number of symbolic crossings per segment pair"""
    import svgpathtools.path as P
    from svgpathtools.path import Path
    P.np = NPProxy()
    R.bound(n1=n1, n2=n2, crossings_per_segment_pair=hits)
    R.stub('segment.intersect -> symbolic (t1,t2) pairs', 'segment.point -> uninterpreted', 'segment.length -> free positive real')

    def run():
        cx = Ctx.cur
        table = {}
        allp = []
        for i in range(n1):
            for j in range(n2):
                prs = []
                for h in range(hits):
                    t1, t2 = symr('t1_%d%d%d' % (i, j, h)), symr('t2_%d%d%d' % (i, j, h))
                    cx.assume(t1.e >= 0, t1.e <= 1, t2.e >= 0, t2.e <= 1)
                    prs.append((t1, t2))
                    allp.append((i, j, t1, t2))
                table[(i, j)] = prs
        A = [ISeg('A', k, hits, table) for k in range(n1)]
        Bs = [ISeg('B', k, hits, table) for k in range(n2)]
        for s in A + Bs:
            cx.assume(s.l.e > 0)
        tol = symr('tol')
        cx.assume(tol.e > 0)
        pa, pb = Path(*A), Path(*Bs)
        # Path.__eq__ on stub segments: different objects -> assert path1 != path2 passes
        out = pa.intersect(pb, tol=tol)
        return A, Bs, allp, tol, out

    for ctx, (kind, val) in explore(run, maxpaths=5000, logic=None):
        R.path(ctx)
        if kind != 'ok':
            R.unexpected(ctx, 'unexpected %s %r' % (kind, val))
            continue
        A, Bs, allp, tol, out = val
        LA = sum((s.l for s in A[1:]), A[0].l)
        LB = sum((s.l for s in Bs[1:]), Bs[0].l)

        def cex(m):
            return {'cls': 'Path.intersect bookkeeping', 'inputs': str(m)[:300], 'script': REPLAY_PI}
        claims = []
        for (T1, s1, t1), (T2, s2, t2) in out:
            ok_member = z3.BoolVal(any(s1 is x for x in A) and any(s2 is x for x in Bs))
            cumA = sum((s.l for s in A[:s1.k]), lift(0))
            cumB = sum((s.l for s in Bs[:s2.k]), lift(0))
            claims += [ok_member, req(lift(T1) * LA, cumA + s1.l * lift(t1)), req(lift(T2) * LB, cumB + s2.l * lift(t2)),
                       z3.Or(*[z3.And(z3.BoolVal(i == s1.k and j == s2.k), lift(t1).e == a.e, lift(t2).e == b.e) for (i, j, a, b) in allp])]
        R.ob('triples-coherent', ctx, z3.And(*claims) if claims else z3.BoolVal(True), cex=cex, timeout_ms=60000)
        # completeness of the de-duplication, as the property states it: a crossing that is separated (by tol) from every OTHER
        # crossing is reported.  (A crossing within tol of another one may go, even when that other one was itself dropped as the
        # duplicate of a third: such chains are not 'well separated' -- an earlier version of this obligation demanded a KEPT
        # neighbour and raised a false alarm on three crossings within 2 tol.)
        miss = []
        kept = [(s1.k, s2.k, lift(t1), lift(t2)) for (T1, s1, t1), (T2, s2, t2) in out]
        for n_, (i, j, a, b) in enumerate(allp):
            present = z3.Or(*[z3.And(z3.BoolVal(i == ki and j == kj), a.e == ta.e, b.e == tb.e) for (ki, kj, ta, tb) in kept]) if kept else z3.BoolVal(False)
            pa_ = A[i].point(a)
            near = []
            for m_, (i2, j2, a2, b2) in enumerate(allp):
                if m_ == n_:
                    continue
                q = A[i2].point(a2)
                dd = (pa_.real - q.real) * (pa_.real - q.real) + (pa_.imag - q.imag) * (pa_.imag - q.imag)
                near.append(dd.e < (tol * tol).e)
            miss.append(z3.Or(present, *near))
        R.ob('dedup-drops-only-near-duplicates', ctx, z3.And(*miss) if miss else z3.BoolVal(True), cex=cex, timeout_ms=60000)
        if R.paths % 10 == 1:
            R.sample({'n1': n1, 'n2': n2, 'output_triples': len(out)})


REPLAY_PI = '''
p1 = Path(Line(0j, 4+4j), Line(4+4j, 8+0j)); p2 = Path(Line(0+3j, 8+3j), Line(8+3j, 8+1j), Line(8+1j, 0+1j))
r = p1.intersect(p2)
for (T1, s1, t1), (T2, s2, t2) in r:
    if s1 not in p1 or s2 not in p2: REPRODUCED('segment not a member')
    if abs(p1.point(T1) - s1.point(t1)) > 1e-9 or abs(p2.point(T2) - s2.point(t2)) > 1e-9 or abs(s1.point(t1) - s2.point(t2)) > 1e-6:
        REPRODUCED('incoherent triple %r' % (((T1, s1, t1), (T2, s2, t2)),))
if len(r) != 4: REPRODUCED('expected 4 crossings, got %d: %r' % (len(r), r))
'''


def families(tier):
    M = 'vf.props.c11'
    fams = [('line-line', M, 'fam_line_line', {'complete': False})]
    for deg in (2, 3):
        fams.append(('line-bezier-poly-deg%d' % deg, M, 'fam_line_bezier_poly', {'deg': deg}))
        for k in range(0, (deg if tier == 'thorough' else (1 if deg == 2 else 0)) + 1):
            fams.append(('line-bezier-deg%d-r%d' % (deg, k), M, 'fam_line_bezier', {'deg': deg, 'nroots': k}))
        if tier == 'thorough':
            fams.append(('line-bezier-deg%d-r1-free-line' % deg, M, 'fam_line_bezier', {'deg': deg, 'nroots': 1, 'anchored': False}))
    # operand-swap symmetry also needs both directions' control-polygon pre-filters to keep touching curves
    for d1, d2 in ((3, 1), (1, 3), (2, 1), (1, 2)):
        fams.append(('prefilter-%s%s' % ('LQC'[d1 - 1], 'LQC'[d2 - 1]), 'vf.props.c12', 'fam_prefilter', {'d1': d1, 'd2': d2}))
    fams.append(('subdivision-acceptance', M, 'fam_acceptance', {}))
    fams.append(('subdivision-first-step', M, 'fam_subdivision_step', {}))
    for nm, rad in (('2x1', (2.0, 1.0)), ('1x3', (1.0, 3.0)), ('circle', (2.0, 2.0))):
        for ln in ('slope', 'vertical'):
            fams.append(('arc-line-closed-form-%s-%s' % (nm, ln), M, 'fam_arc_line_candidates', {'radii': rad, 'line': ln}))
    for pat in ((), (0,), (1,), (0, 1), (2,), (0, 3), (1, 2, 3), (0, 1, 2, 3)):
        fams.append(('arc-line-assembly-%s' % (''.join(map(str, pat)) or 'all'), M, 'fam_arc_line_candidates', {'radii': (2.0, 1.0), 'none_pattern': pat}))
    for n in (1, 2, 3):
        fams.append(('arc-bezier-pairing-%d' % n, M, 'fam_arc_bezier_pairing', {'nroots': n}))
    fams.append(('line-point_to_t', 'vf.props.c11arc', 'fam_line_point_to_t', {}))
    # two unrotated circular arcs (the closed-form Arc x Arc case): candidates and assembly for different answers of point_to_t
    for nm, tv in (('all-in', (0.5, 0.5, 0.5, 0.5)), ('first-off-self', (-0.25, 0.5, 0.5, 0.5)), ('second-off-other', (0.5, 0.5, 0.5, 1.5)),
                   ('none-and-in', (None, 0.5, 0.25, 0.75)), ('ends', (0.0, 1.0, 1.0, 0.0))):
        fams.append(('arc-arc-circles-%s' % nm, 'vf.props.c11arcarc', 'fam_arc_arc_circles', {'tvals': tv}))
    for dg in (1, 2, 3):
        fams.append(('arc-bezier-root-polynomial-deg%d' % dg, 'vf.props.c11arcarc', 'fam_arc_bezier_polynomial', {'deg': dg}))
    for sg in (1, -1):
        fams.append(('arc-arc-circles-complete%s' % ('+' if sg > 0 else '-'), 'vf.props.c11arcarc', 'fam_arc_arc_circles', {'mode': 'complete', 'sign': sg}))
    for sg in (1, -1):
        fams.append(('arc-phase2t-%s' % ('ccw' if sg > 0 else 'cw'), 'vf.props.c11arc', 'fam_phase2t', {'sign': sg}))
    for nm, rad in (('2x1', (2.0, 1.0)), ('circle', (2.0, 2.0))) + ((('1x3', (1.0, 3.0)),) if tier == 'thorough' else ()):
        for sg in (1, -1):
            fams.append(('arc-point_to_t-%s-%s' % (nm, 'ccw' if sg > 0 else 'cw'), 'vf.props.c11arc', 'fam_arc_point_to_t', {'radii': rad, 'sign': sg}))
    fams.append(('path-intersect-1x1x2', M, 'fam_path_intersect', {'n1': 1, 'n2': 1, 'hits': 2}))
    fams.append(('path-intersect-2x1x1', M, 'fam_path_intersect', {'n1': 2, 'n2': 1, 'hits': 1}))
    if tier == 'thorough':
        fams.append(('path-intersect-2x2x1', M, 'fam_path_intersect', {'n1': 2, 'n2': 2, 'hits': 1}))
    return fams
