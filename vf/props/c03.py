"""C03 -- Line/Quadratic/Cubic point, poly, points, derivative are the Bernstein curve."""
from math import comb

import z3

from ..symx import (SR, SC, explore, symc, symr, ceq, mval, mcval, Ctx)

META = {
    'explanation': (
        'The real Line/QuadraticBezier/CubicBezier methods point, poly, points, derivative and the '
        'converters bez2poly, poly2bez, bpoints2bezier, bezier2polynomial are executed on symbolic complex '
        'control points and a symbolic real t; each result term is compared by z3 (QF_NRA) with an '
        'independent Bernstein-sum oracle built from math.comb (derivatives: formal differentiation of the '
        'oracle coefficient list).  unsat = polynomial identity for ALL control points and ALL t.  All '
        'forks introduced by numpy.poly1d trimming zero leading coefficients are explored.'),
    'outside': ['"numerically to within rounding": obligations are over the reals, not IEEE doubles'],
    'assumptions': ['floats modelled as exact reals', 'numpy.poly1d/polyval/polyder run for real on dtype=object arrays'],
}

NAMES = {1: 'Line', 2: 'QuadraticBezier', 3: 'CubicBezier'}


def bern(ps, t):
    n = len(ps) - 1
    r = SC(0, 0)
    for i, p in enumerate(ps):
        r = r + p * comb(n, i) * ((1 - t) ** (n - i)) * (t ** i)
    return r


def power_coeffs(ps):
    """oracle: power-basis coefficients c_j (ascending) of the Bernstein curve."""
    n = len(ps) - 1
    out = []
    for j in range(n + 1):
        c = SC(0, 0)
        for i in range(j + 1):
            c = c + ps[i] * (comb(n, j) * comb(j, i) * (-1) ** (i + j))
        out.append(c)
    return out


def deriv_oracle(ps, t, k):
    c = power_coeffs(ps)
    for _ in range(k):
        c = [c[j] * j for j in range(1, len(c))]
    r = SC(0, 0)
    for j, cj in enumerate(c):
        r = r + cj * (t ** j)
    return r


REPLAY_ORACLE = '''
from math import comb
from fractions import Fraction as F
def cF(z): return (F(z.real), F(z.imag))
def bernF(ps, t):
    n = len(ps)-1; t = F(t); x = F(0); y = F(0)
    for i,p in enumerate(ps):
        w = comb(n,i)*(1-t)**(n-i)*t**i
        x += w*F(p.real); y += w*F(p.imag)
    return complex(float(x), float(y))
def derivF(ps, t, k):
    n = len(ps)-1; t = F(t)
    cs = []
    for j in range(n+1):
        cx = F(0); cy = F(0)
        for i in range(j+1):
            w = comb(n,j)*comb(j,i)*(-1)**(i+j)
            cx += w*F(ps[i].real); cy += w*F(ps[i].imag)
        cs.append((cx,cy))
    for _ in range(k):
        cs = [(c[0]*j, c[1]*j) for j,c in enumerate(cs)][1:]
    x = sum((c[0]*t**j for j,c in enumerate(cs)), F(0)); y = sum((c[1]*t**j for j,c in enumerate(cs)), F(0))
    return complex(float(x), float(y))
'''


def fam_bezier(R, deg):
    import numpy as np
    import svgpathtools.path as P
    from svgpathtools.path import (Line, QuadraticBezier, CubicBezier, poly2bez,
                                   bez2poly, bpoints2bezier)
    cls = {1: Line, 2: QuadraticBezier, 3: CubicBezier}[deg]
    R.bound(degree=deg, derivative_orders='1..5', values='unbounded reals')

    def run():
        ps = [symc('p%d' % i) for i in range(deg + 1)]
        t = symr('t')
        seg = cls(*ps)
        obs = []
        obs.append(('point', lambda: seg.point(t), bern(ps, t)))
        obs.append(('point0', lambda: seg.point(0), ps[0]))
        obs.append(('point1', lambda: seg.point(1), ps[-1]))
        obs.append(('poly', lambda: seg.poly()(t), bern(ps, t)))
        obs.append(('points[0]', lambda: seg.points([t, 0, 1])[0], bern(ps, t)))
        obs.append(('points[1]', lambda: seg.points([t, 0, 1])[1], ps[0]))
        obs.append(('points[2]', lambda: seg.points([t, 0, 1])[2], ps[-1]))
        obs.append(('bez2poly', lambda: np.poly1d(bez2poly(seg))(t), bern(ps, t)))
        obs.append(('bez2poly_rev', lambda: np.poly1d(list(bez2poly(seg, numpy_ordering=False))[::-1])(t), bern(ps, t)))
        obs.append(('poly_coeffs', lambda: np.poly1d(list(seg.poly(return_coeffs=True)))(t), bern(ps, t)))
        obs.append(('poly2bez', lambda: poly2bez(seg.poly()).point(t), bern(ps, t)))
        obs.append(('poly2bez_bpoints', lambda: bpoints2bezier(poly2bez(seg.poly(), return_bpoints=True)).point(t), bern(ps, t)))
        obs.append(('bpoints2bezier', lambda: bpoints2bezier(seg.bpoints()).point(t), bern(ps, t)))
        for k in range(1, 6):
            obs.append(('derivative%d' % k, (lambda k=k: seg.derivative(t, k)), deriv_oracle(ps, t, k)))
        # evaluate all (real code) now, so forks happen inside the explored run
        out = []
        for name, f, want in obs:
            try:
                out.append((name, f(), want))
            except AssertionError as e:
                out.append((name, e, want))
        return ps, t, out

    for ctx, (kind, val) in explore(run, maxpaths=400):
        R.path(ctx)
        if kind != 'ok':
            R.error('unexpected %s on a feasible path: %r' % (kind, val))
            continue
        ps, t, out = val
        R.witness(ctx, 'bezier%d' % deg)
        for name, got, want in out:
            def cex(m, name=name):
                pts = [mcval(m, p) for p in ps]
                tv = mval(m, t)
                return render(deg, name, pts, tv)
            if isinstance(got, AssertionError):
                # polynomial2bezier documents degree 1..3 only: raising is
                # acceptable exactly for the constant (single point) curve
                # (Line.derivative asserts start != end: same degenerate case)
                assert name.startswith('poly2bez') or (deg == 1 and name.startswith('derivative')), (name, got)
                R.ob('%s.%s.raises_only_if_constant' % (NAMES[deg], name), ctx,
                     z3.And(*[ceq(p, ps[0]) for p in ps[1:]]), cex=cex)
                continue
            R.ob('%s.%s' % (NAMES[deg], name), ctx, ceq(got, want), cex=cex,
                 cvc5_too=(name in ('point', 'derivative1')))
        R.sample({'class': NAMES[deg], 'decisions': ''.join('TF'[not d[0]] for d in ctx.decisions[:ctx.pos]),
                  'obligations': [n for n, _, _ in out]})


def render(deg, name, pts, tv):
    cls = NAMES[deg]
    call = {
        'point': 'seg.point(t)', 'point0': 'seg.point(0)', 'point1': 'seg.point(1)',
        'poly': 'seg.poly()(t)', 'points[0]': 'seg.points([t,0,1])[0]',
        'points[1]': 'seg.points([t,0,1])[1]', 'points[2]': 'seg.points([t,0,1])[2]',
        'bez2poly': 'np.poly1d(bez2poly(seg))(t)',
        'bez2poly_rev': 'np.poly1d(list(bez2poly(seg, numpy_ordering=False))[::-1])(t)',
        'poly_coeffs': 'np.poly1d(list(seg.poly(return_coeffs=True)))(t)',
        'poly2bez': 'poly2bez(seg.poly()).point(t)',
        'poly2bez_bpoints': 'bpoints2bezier(poly2bez(seg.poly(), return_bpoints=True)).point(t)',
        'bpoints2bezier': 'bpoints2bezier(seg.bpoints()).point(t)',
    }
    if name.startswith('derivative'):
        k = int(name[len('derivative'):])
        got = 'seg.derivative(t, %d)' % k
        want = 'derivF(ps, t, %d)' % k
    else:
        got = call[name]
        want = {'point0': 'ps[0]', 'point1': 'ps[-1]', 'points[1]': 'ps[0]', 'points[2]': 'ps[-1]'}.get(name, 'bernF(ps, t)')
    script = REPLAY_ORACLE + '''
ps = %r
t = %r
seg = %s(*ps)
got = complex(%s)
want = complex(%s)
scale = max(1.0, max(abs(p) for p in ps)) * max(1.0, abs(t))**%d
if abs(got - want) > 1e-9 * scale:
    REPRODUCED('%s.%s: got %%r, Bernstein oracle %%r' %% (got, want))
''' % (pts, tv, cls, got, want, deg, cls, name)
    return {'cls': '%s.%s' % (cls, name.rstrip('0123456789') if name.startswith('derivative') else name),
            'inputs': {'ps': [str(p) for p in pts], 't': tv}, 'script': script}


def fam_requery(R, deg):
    """the same object queried, its control points reassigned in place, and
    queried again: every representation must follow the *current* control
    points (catches memoised polynomials / stale caches)."""
    from svgpathtools.path import Line, QuadraticBezier, CubicBezier, poly2bez, bez2poly
    import numpy as np
    cls = {1: Line, 2: QuadraticBezier, 3: CubicBezier}[deg]
    fields = {1: ['start', 'end'], 2: ['start', 'control', 'end'],
              3: ['start', 'control1', 'control2', 'end']}[deg]
    R.bound(degree=deg, history='query all; reassign one control point / all control points; one query (a fresh object per re-query)')
    queries = [
        ('point', lambda s, t: s.point(t)),
        ('poly', lambda s, t: s.poly()(t)),
        ('points', lambda s, t: s.points([t, 0, 1])[0]),
        ('bez2poly', lambda s, t: np.poly1d(bez2poly(s))(t)),
        ('derivative1', lambda s, t: s.derivative(t, 1)),
        ('derivative2', lambda s, t: s.derivative(t, 2)),
    ]

    def run():
        ps = [symc('p%d' % i) for i in range(deg + 1)]
        qs = [symc('q%d' % i) for i in range(deg + 1)]
        t = symr('t')
        Ctx.cur.assume(z3.Not(ceq(ps[0], ps[-1])), z3.Not(ceq(qs[0], qs[-1])))
        first, second = [], []
        # one object per re-query, so that no earlier re-query can refresh what a later one reads;
        # every single field alone and all fields together are reassigned (an invalidation keyed on some fields only shows on the others)
        subsets = [[i] for i in range(len(fields))] + [list(range(len(fields)))]
        for sub in subsets:
            cur = [qs[i] if i in sub else ps[i] for i in range(len(ps))]
            Ctx.cur.assume(z3.Not(ceq(cur[0], cur[-1])))
            for n, f in queries:
                seg = cls(*ps)
                first = [(n_, f_(seg, t)) for n_, f_ in queries]
                for i in sub:
                    setattr(seg, fields[i], qs[i])
                second.append((n, f(seg, t), cur, sub))
        return ps, qs, t, first, second

    for ctx, (kind, val) in explore(run, maxpaths=400):
        R.path(ctx)
        if kind != 'ok':
            R.error('unexpected %s %r' % (kind, val))
            continue
        ps, qs, t, first, second = val
        for name, got, cur, sub in second:
            want = deriv_oracle(cur, t, int(name[-1])) if name.startswith('derivative') else bern(cur, t)

            def cex(m, name=name, cur=cur, sub=sub):
                p0 = [mcval(m, p) for p in ps]
                q0 = [mcval(m, p) for p in cur]
                tv = mval(m, t)
                call = {'point': 'seg.point(t)', 'poly': 'seg.poly()(t)', 'points': 'seg.points([t,0,1])[0]',
                        'bez2poly': 'np.poly1d(bez2poly(seg))(t)', 'derivative1': 'seg.derivative(t,1)',
                        'derivative2': 'seg.derivative(t,2)'}
                want_s = 'derivF(qs, t, %s)' % name[-1] if name.startswith('derivative') else 'bernF(qs, t)'
                script = REPLAY_ORACLE + '''
from svgpathtools.path import bez2poly, poly2bez
import numpy as np
ps = %r
qs = %r
t = %r
seg = %s(*ps)
for c in [%s]:
    pass  # first round of queries
for i, (nm, q) in enumerate(zip(%r, qs)):
    if i in %r: setattr(seg, nm, q)
got = complex(%s); want = complex(%s)
if abs(got - want) > 1e-9 * max(1.0, max(abs(p) for p in qs)) * max(1.0, abs(t))**%d:
    REPRODUCED('%s.%s after reassigning control points: got %%r, oracle %%r' %% (got, want))
''' % (p0, q0, tv, NAMES[deg], ', '.join(call.values()), fields, sub, call[name], want_s, deg, NAMES[deg], name)
                return {'cls': '%s.%s.after-reassign' % (NAMES[deg], name), 'inputs': {'ps': str(p0), 'qs': str(q0), 't': tv}, 'script': script}
            R.ob('%s.requery.%s' % (NAMES[deg], name), ctx, ceq(got, want), cex=cex)
        R.sample({'class': NAMES[deg], 'history': ['query*6', 'set ' + ','.join(fields), 'query*6']})


def fam_generic(R):
    """bezier.bezier2polynomial / polynomial2bezier on raw tuples, degree 1..3."""
    import numpy as np
    from svgpathtools.bezier import bezier2polynomial, polynomial2bezier, bezier_point
    R.bound(degree='1..3')
    for deg in (1, 2, 3):
        def run():
            ps = [symc('p%d' % i) for i in range(deg + 1)]
            t = symr('t')
            co = bezier2polynomial(ps)
            back = polynomial2bezier(list(co))
            bp = bezier_point(ps, t)
            return ps, t, co, back, bp
        for ctx, (kind, val) in explore(run, maxpaths=50):
            R.path(ctx)
            if kind != 'ok':
                R.unexpected(ctx, 'unexpected %s %r' % (kind, val))
                continue
            ps, t, co, back, bp = val

            def cex(m, ps=ps, t=t):
                p0 = [mcval(m, p) for p in ps]
                return {'cls': 'bezier2polynomial / polynomial2bezier / bezier_point on raw control points', 'inputs': {'ps': str(p0), 't': mval(m, t)},
                        'script': REPLAY_ORACLE + '''
from svgpathtools.bezier import bezier2polynomial, polynomial2bezier, bezier_point
import numpy as np
ps = %r; t = %r
scale = 1 + max(abs(p) for p in ps)
co = bezier2polynomial(ps)
for form in (list(co), tuple(co), np.array(list(co))):
    back = polynomial2bezier(form)
    if len(back) != len(ps) or any(abs(a - b) > 1e-9 * scale for a, b in zip(back, ps)):
        REPRODUCED('polynomial2bezier(%%s(bezier2polynomial(%%r))) = %%r' %% (type(form).__name__, ps, back))
if abs(np.poly1d(list(co))(t) - bernF(ps, t)) > 1e-9 * scale * max(1, abs(t)) ** len(ps): REPRODUCED('bezier2polynomial(%%r) evaluated at %%r is %%r, the curve point is %%r' %% (ps, t, np.poly1d(list(co))(t), bernF(ps, t)))
if abs(bezier_point(ps, t) - bernF(ps, t)) > 1e-9 * scale * max(1, abs(t)) ** len(ps): REPRODUCED('bezier_point(%%r, %%r) = %%r, the curve point is %%r' %% (ps, t, bezier_point(ps, t), bernF(ps, t)))
''' % (p0, mval(m, t))}
            R.ob('b2p.eval.deg%d' % deg, ctx, ceq(np.poly1d(list(co))(t), bern(ps, t)), cex=cex)
            R.ob('p2b.b2p.deg%d' % deg, ctx, z3.And(*[ceq(a, b) for a, b in zip(back, ps)]) if len(back) == len(ps) else z3.BoolVal(False), cex=cex)
            R.ob('bezier_point.deg%d' % deg, ctx, ceq(bp, bern(ps, t)), cex=cex)
            R.sample({'degree': deg, 'claim': 'polynomial2bezier(bezier2polynomial(p)) == p'})


def families(tier):
    fams = [('bezier-deg%d' % d, 'vf.props.c03', 'fam_bezier', {'deg': d}) for d in (1, 2, 3)]
    fams += [('requery-deg%d' % d, 'vf.props.c03', 'fam_requery', {'deg': d}) for d in (1, 2, 3)]
    fams.append(('generic-convert', 'vf.props.c03', 'fam_generic', {}))
    return fams
