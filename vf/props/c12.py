"""C12 -- every transversal crossing is reported, exactly once."""
import itertools

import numpy as np
import z3

from ..symx import (SR, SC, SB, explore, symc, symr, ceq, req, mval, mcval, Ctx, lift, zabs, Abort, tosc, zbool, sq)
from ..stubs import NPProxy, patched, sym_min, sym_max
from .c03 import bern
from . import c11
from .c11 import cls_of, NAMES, REPLAY_LB

META = {
    'explanation': (
        'Line x Line: for symbolic segments that cross at symbolic interior parameters (u1,u2) at an angle >= 6 degrees the real '
        'closed form returns exactly [(u1,u2)].  Line x Quadratic/Cubic: with np.roots stubbed by a root list that contains the true '
        'crossing parameter (complete-roots contract) and is otherwise arbitrary, bezier_by_line_intersections returns the pair '
        '(u_bez,u_line) exactly once (the set()/polyroots de-duplication runs for real).  The control-polygon pre-filters of '
        'Line/Quadratic/Cubic.intersect are run for real with the solvers behind them replaced by a marker: z3 shows they never '
        'reject two curves that share a point.  boxes_intersect (the pruning test of the Bezier-Bezier subdivision) is run on '
        'symbolic boxes: two boxes with a common point must be reported as intersecting.  ApproxSolutionSet and the joint '
        'de-duplication of Path.intersect drop only entries within tol of a kept one.  The bounding boxes used for pruning contain '
        'the curve (degenerate-cubic and quadratic routes, shared with C08).'),
    'outside': ['that np.roots finds all roots (LAPACK)', 'convergence of the subdivision; the redundant-pair removal loop', 'Arc pairs: only the closed-form Arc x Line candidates and the Arc x Bezier pairing are encoded (Arc.point_to_t for rotation 0 is, see vf/props/c11arc.py; phase2t, Arc x Arc are not)',
                'crossings on a joint (excluded by the property)'],
    'assumptions': ['complete-roots contract for np.roots'],
}


def fam_line_line(R, anchored=True):
    c11.fam_line_line(R, complete=True, anchored=anchored)


def fam_line_bezier_complete(R, deg, nother):
    import svgpathtools.path as P
    import svgpathtools.polytools as PT
    P.np = NPProxy()
    R.bound(degree=deg, other_roots=nother, line_start_anchored_at_origin=True, angle='>= 6 degrees', separation=1e-3)
    R.stub('np.roots -> [u_bez] + %d arbitrary other real roots (separated) + complex rest' % nother)

    def run():
        ps = [symc('p%d' % i) for i in range(deg + 1)]
        l0, l1 = SC(0, 0), symc('l1')
        cx = Ctx.cur
        cx.assume(z3.Not(ceq(l0, l1)), z3.Or(*[z3.Not(ceq(p, ps[0])) for p in ps[1:]]))
        ub, ul = symr('ub'), symr('ul')
        cx.assume(ub.e > 0, ub.e < 1, ul.e > 0, ul.e < 1, ceq(bern(ps, ub), bern([l0, l1], ul)))
        others = [symr('o%d' % i) for i in range(nother)]
        for i, x in enumerate(others):
            cx.assume(zabs(x.e - ub.e) >= 1e-3)
            for y in others[i + 1:]:
                cx.assume(zabs(x.e - y.e) >= 1e-3)
        roots = [SC(ub, 0)] + [SC(o, 0) for o in others] + [SC(symr('cx%d' % i), 1) for i in range(deg - 1 - nother)]
        bez = cls_of(deg)(*ps)
        line = P.Line(l0, l1)
        with patched(PT, np=NPProxy(roots=lambda p: list(roots))), patched(P, min=sym_min, max=sym_max):
            r1 = bez.intersect(line)
            r2 = line.intersect(bez)
        return ps, l1, (ub, ul), r1, r2

    for ctx, (kind, val) in explore(run, maxpaths=3000, logic=None):
        R.path(ctx)
        if kind != 'ok':
            R.unexpected(ctx, 'unexpected %s %r' % (kind, val))
            continue
        ps, l1, (ub, ul), r1, r2 = val

        def cex(m):
            pts = [mcval(m, p) for p in ps]
            return {'cls': '%s x Line completeness' % NAMES[deg], 'inputs': {'ps': str(pts), 'line': str((0j, mcval(m, l1)))},
                    'script': REPLAY_LB % (pts, (0j, mcval(m, l1)))}
        cnt1 = z3.Sum([z3.If(z3.And(lift(a).e == ub.e, lift(b).e == ul.e), 1, 0) for a, b in r1]) if r1 else z3.IntVal(0)
        cnt2 = z3.Sum([z3.If(z3.And(lift(b).e == ub.e, lift(a).e == ul.e), 1, 0) for a, b in r2]) if r2 else z3.IntVal(0)
        R.ob('%sL.crossing-reported-once' % 'LQC'[deg - 1], ctx, cnt1 == 1, cex=cex, timeout_ms=90000)
        R.ob('L%s.crossing-reported-once' % 'LQC'[deg - 1], ctx, cnt2 == 1, cex=cex, timeout_ms=90000)
        if R.paths % 10 == 1:
            R.sample({'degree': deg, 'pairs': len(r1), 'decisions': ''.join('TF'[not d_[0]] for d_ in ctx.decisions[:ctx.pos])})


REPLAY_PRE = '''
import itertools
a = %r; b = %r
A = bpoints2bezier(a); B = bpoints2bezier(b)
# do the curves share a point?  (dense search + refinement)
best = None
for i in range(401):
    for j in range(401):
        d = abs(A.point(i / 400) - B.point(j / 400))
        if best is None or d < best[0]: best = (d, i / 400, j / 400)
if best[0] < 1e-2:
    try:
        r = A.intersect(B)
    except AssertionError:
        NOT_REPRODUCED()
    if r == []:
        REPRODUCED('%%r and %%r come within %%r of each other (t=%%r,u=%%r) but intersect() returned [] ' %% (A, B, best[0], best[1], best[2]))
'''


def fam_prefilter(R, d1, d2):
    import svgpathtools.path as P
    P.np = NPProxy()
    R.bound(degrees=(d1, d2))
    R.stub('bezier_by_line_intersections / bezier_intersections -> marker (only the control-polygon pre-filter runs)',
           'path.min/max -> If-terms', 'segment.length -> 1 (argument of the stubbed solver)')
    hit = [False]

    def mark(*x, **k):
        hit[0] = True
        return []

    def run():
        a = [symc('a%d' % i) for i in range(d1 + 1)]
        b = [symc('b%d' % i) for i in range(d2 + 1)]
        t, u = symr('t'), symr('u')
        cx = Ctx.cur
        cx.assume(t.e >= 0, t.e <= 1, u.e >= 0, u.e <= 1, ceq(bern(a, t), bern(b, u)))
        A, B = cls_of(d1)(*a), cls_of(d2)(*b)
        A.length = lambda *x, **k: 1.0
        B.length = lambda *x, **k: 1.0
        hit[0] = False
        with patched(P, min=sym_min, max=sym_max, bezier_by_line_intersections=mark, bezier_intersections=mark):
            try:
                A.intersect(B)
            except AssertionError:
                raise Abort()
        return a, b, hit[0]

    for ctx, (kind, val) in explore(run, maxpaths=500):
        if kind == 'abort':
            continue
        R.path(ctx)
        if kind != 'ok':
            R.unexpected(ctx, 'unexpected %s %r' % (kind, val))
            continue
        a, b, r = val

        def cex(m):
            return {'cls': 'control-polygon pre-filter rejects curves that share a point (%s x %s)' % (NAMES[d1], NAMES[d2]),
                    'inputs': {'a': str([mcval(m, p) for p in a]), 'b': str([mcval(m, p) for p in b])},
                    'script': REPLAY_PRE % ([mcval(m, p) for p in a], [mcval(m, p) for p in b])}
        ints = []
        for p in a + b:
            ints += [z3.IsInt(p.real.e), z3.IsInt(p.imag.e), zabs(p.real.e) <= 9, zabs(p.imag.e) <= 9]
        R.ob('%s%s.prefilter-keeps-touching-curves' % ('LQC'[d1 - 1], 'LQC'[d2 - 1]), ctx,
             z3.BoolVal(bool(r)), cex=cex, robust=ints, timeout_ms=60000)
        R.sample({'degrees': (d1, d2), 'reached': bool(r)})


REPLAY_BOXES = '''
b1 = CubicBezier(0j, 3+0j, 6+0j, 10+0j); b2 = CubicBezier(5-1j, 5+2j, 5+5j, 5+9j)
r = b1.intersect(b2)
if not any(abs(b1.point(t1) - (5+0j)) < 1e-3 for t1, t2 in r):
    REPRODUCED('%r and %r cross at (5,0) but intersect() returned %r' % (b1, b2, r))
'''


def fam_boxes(R):
    from svgpathtools.bezier import boxes_intersect
    R.bound(boxes='symbolic, xmin<=xmax, ymin<=ymax')

    def run():
        b1 = [symr('p' + n) for n in ('xmin', 'xmax', 'ymin', 'ymax')]
        b2 = [symr('q' + n) for n in ('xmin', 'xmax', 'ymin', 'ymax')]
        cx = Ctx.cur
        for b in (b1, b2):
            cx.assume(b[0].e <= b[1].e, b[2].e <= b[3].e)
        return b1, b2, boxes_intersect(tuple(b1), tuple(b2))

    for ctx, (kind, val) in explore(run, maxpaths=500):
        R.path(ctx)
        if kind != 'ok':
            R.unexpected(ctx, 'unexpected %s %r' % (kind, val))
            continue
        b1, b2, r = val
        common = z3.And(z3.If(b1[0].e > b2[0].e, b1[0].e, b2[0].e) <= z3.If(b1[1].e < b2[1].e, b1[1].e, b2[1].e),
                        z3.If(b1[2].e > b2[2].e, b1[2].e, b2[2].e) <= z3.If(b1[3].e < b2[3].e, b1[3].e, b2[3].e))

        def cex(m):
            v1, v2 = [mval(m, x) for x in b1], [mval(m, x) for x in b2]
            degenerate = (v1[0] == v1[1] or v1[2] == v1[3] or v2[0] == v2[1] or v2[2] == v2[3] or
                          max(v1[0], v2[0]) == min(v1[1], v2[1]) or max(v1[2], v2[2]) == min(v1[3], v2[3]))
            cls = 'boxes_intersect false for boxes that only share a zero-width strip (axis-parallel straight Bezier / touching boxes)' if degenerate \
                else 'boxes_intersect false for properly overlapping boxes'
            return {'cls': cls, 'inputs': {'box1': v1, 'box2': v2}, 'script': REPLAY_BOXES if degenerate else REPLAY_BOXES2 % (v1, v2)}
        # prefer a counterexample with a proper (positive-area) overlap: that would be a different, unlisted defect
        proper = z3.And(z3.If(b1[0].e > b2[0].e, b1[0].e, b2[0].e) + 0.5 <= z3.If(b1[1].e < b2[1].e, b1[1].e, b2[1].e),
                        z3.If(b1[2].e > b2[2].e, b1[2].e, b2[2].e) + 0.5 <= z3.If(b1[3].e < b2[3].e, b1[3].e, b2[3].e))
        if r:
            R.ob('boxes.true-only-with-common-point', ctx, common, cex=cex)
        else:
            R.ob('boxes.false-only-without-common-point', ctx, z3.Not(common), cex=cex, robust=[proper])
        R.sample({'result': bool(r), 'decisions': ''.join('TF'[not d_[0]] for d_ in ctx.decisions[:ctx.pos])})


REPLAY_BOXES2 = '''
from svgpathtools.bezier import boxes_intersect
v1, v2 = %r, %r
if not boxes_intersect(tuple(v1), tuple(v2)): REPRODUCED('boxes_intersect(%%r, %%r) is False although the boxes overlap' %% (v1, v2))
'''


def fam_approx_set(R, n):
    from svgpathtools.bezier import ApproxSolutionSet
    R.bound(points=n)

    def run():
        tol = symr('tol')
        Ctx.cur.assume(tol.e > 0)
        pts = [symc('z%d' % i) for i in range(n)]
        s = ApproxSolutionSet(tol)
        for p in pts:
            s.appadd(p)
        return tol, pts, list(s)

    for ctx, (kind, val) in explore(run, maxpaths=500):
        R.path(ctx)
        if kind != 'ok':
            R.unexpected(ctx, 'unexpected %s %r' % (kind, val))
            continue
        tol, pts, kept = val

        def d2(a, b):
            d = a - b
            return (d.real * d.real + d.imag * d.imag).e
        claims = []
        for p in pts:
            claims.append(z3.Or(*[z3.Or(ceq(p, q), d2(p, q) < (tol * tol).e) for q in kept]))
        for i, a in enumerate(kept):
            for b in kept[i + 1:]:
                claims.append(d2(a, b) >= (tol * tol).e)
        R.ob('approxset.n%d' % n, ctx, z3.And(*claims), timeout_ms=60000,
             cex=lambda m: {'cls': 'ApproxSolutionSet drops a separated point', 'inputs': str([mcval(m, p) for p in pts]), 'script': '''
from svgpathtools.bezier import ApproxSolutionSet
pts = %r; tol = %r
s = ApproxSolutionSet(tol)
for p in pts: s.appadd(p)
for p in pts:
    if not any(abs(p - q) < tol or p == q for q in s): REPRODUCED('point %%r lost: kept %%r' %% (p, list(s)))
''' % ([mcval(m, p) for p in pts], mval(m, tol))})
        R.sample({'n': n, 'kept': len(kept)})


def fam_bbox_contains(R, deg, degenerate):
    from . import c08
    c08.fam_minmax(R, deg, degenerate)


def families(tier):
    M = 'vf.props.c12'
    fams = [('line-line-complete', M, 'fam_line_line', {'anchored': tier == 'quick'})]
    fams.append(('quad-line-complete-o0', M, 'fam_line_bezier_complete', {'deg': 2, 'nother': 0}))
    if tier == 'thorough':
        fams.append(('quad-line-complete-o1', M, 'fam_line_bezier_complete', {'deg': 2, 'nother': 1}))
    fams.append(('cubic-line-complete-o0', M, 'fam_line_bezier_complete', {'deg': 3, 'nother': 0}))
    if tier == 'thorough':
        fams.append(('cubic-line-complete-o1', M, 'fam_line_bezier_complete', {'deg': 3, 'nother': 1}))
        fams.append(('cubic-line-complete-o2', M, 'fam_line_bezier_complete', {'deg': 3, 'nother': 2}))
    for d1, d2 in itertools.product((1, 2, 3), repeat=2):
        if (d1, d2) == (1, 1):
            continue
        fams.append(('prefilter-%s%s' % ('LQC'[d1 - 1], 'LQC'[d2 - 1]), M, 'fam_prefilter', {'d1': d1, 'd2': d2}))
    fams.append(('boxes-intersect', M, 'fam_boxes', {}))
    fams.append(('approx-set-3', M, 'fam_approx_set', {'n': 3}))
    fams.append(('path-dedup-1x1x2', 'vf.props.c11', 'fam_path_intersect', {'n1': 1, 'n2': 1, 'hits': 2}))
    fams.append(('path-dedup-2x1x1', 'vf.props.c11', 'fam_path_intersect', {'n1': 2, 'n2': 1, 'hits': 1}))
    fams.append(('bbox-degenerate-cubic', M, 'fam_bbox_contains', {'deg': 3, 'degenerate': True}))
    fams.append(('bbox-quadratic', M, 'fam_bbox_contains', {'deg': 2, 'degenerate': False}))
    # Arc x Line closed form: every common point of the ellipse and the line is among the candidates handed to point_to_t (shared with C11)
    for nm, rad in (('2x1', (2.0, 1.0)), ('1x3', (1.0, 3.0)), ('circle', (2.0, 2.0))):
        for ln in ('slope', 'vertical'):
            fams.append(('arc-line-closed-form-%s-%s' % (nm, ln), 'vf.props.c11', 'fam_arc_line_candidates', {'radii': rad, 'line': ln}))
    for n in (2, 3):
        fams.append(('arc-bezier-pairing-%d' % n, 'vf.props.c11', 'fam_arc_bezier_pairing', {'nroots': n}))
    fams.append(('line-point_to_t', 'vf.props.c11arc', 'fam_line_point_to_t', {}))
    fams.append(('arc-arc-circles-all-in', 'vf.props.c11arcarc', 'fam_arc_arc_circles', {'tvals': (0.5, 0.5, 0.5, 0.5)}))
    for dg in (1, 2, 3):
        fams.append(('arc-bezier-root-polynomial-deg%d' % dg, 'vf.props.c11arcarc', 'fam_arc_bezier_polynomial', {'deg': dg}))
    for sg in (1, -1):
        fams.append(('arc-arc-circles-complete%s' % ('+' if sg > 0 else '-'), 'vf.props.c11arcarc', 'fam_arc_arc_circles', {'mode': 'complete', 'sign': sg}))
    for sg in (1, -1):
        fams.append(('arc-phase2t-%s' % ('ccw' if sg > 0 else 'cw'), 'vf.props.c11arc', 'fam_phase2t', {'sign': sg}))
    # Arc.point_to_t answers None only for points of the ellipse that are not on the arc (vf/props/c11arc.py)
    for nm, rad in (('2x1', (2.0, 1.0)), ('circle', (2.0, 2.0))):
        for sg in (1, -1):
            fams.append(('arc-point_to_t-%s-%s' % (nm, 'ccw' if sg > 0 else 'cw'), 'vf.props.c11arc', 'fam_arc_point_to_t', {'radii': rad, 'sign': sg}))
    # a too small box of a genuine cubic drops crossings in the subdivision's pre-filter: the closed-form branch, sharded as in C08
    for k in range(5):
        fams.append(('bbox-cubic-closed-form-%d' % k, 'vf.props.c08', 'fam_minmax', {'deg': 3, 'degenerate': False, 'shard': (k, 5)}))
    return fams
