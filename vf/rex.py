"""Python `re` pattern -> z3 regular expression (subset: literals, classes,
ranges, \\d \\s categories, greedy repeats, groups, alternation)."""
import re
import re._parser as sp
import re._constants as sc

import z3


def _cls(items):
    parts = []
    neg = False
    for op, av in items:
        if op == sc.NEGATE:
            neg = True
        elif op == sc.LITERAL:
            parts.append(z3.Re(chr(av)))
        elif op == sc.RANGE:
            parts.append(z3.Range(chr(av[0]), chr(av[1])))
        elif op == sc.CATEGORY:
            parts.append(_cat(av))
        else:
            raise NotImplementedError(op)
    r = parts[0] if len(parts) == 1 else z3.Union(*parts)
    if neg:
        r = z3.Intersect(z3.AllChar(z3.ReSort(z3.StringSort())), z3.Complement(r))
    return r


def _cat(av):
    if av == sc.CATEGORY_DIGIT:
        return z3.Range('0', '9')
    if av == sc.CATEGORY_SPACE:
        return z3.Union(*[z3.Re(c) for c in ' \t\n\r\x0b\x0c'])
    raise NotImplementedError(av)


def _seq(items):
    rs = [_node(op, av) for op, av in items]
    if not rs:
        return z3.Re('')
    return rs[0] if len(rs) == 1 else z3.Concat(*rs)


def _node(op, av):
    if op == sc.LITERAL:
        return z3.Re(chr(av))
    if op == sc.IN:
        return _cls(av)
    if op == sc.CATEGORY:
        return _cat(av)
    if op in (sc.MAX_REPEAT, sc.MIN_REPEAT):
        lo, hi, sub = av
        r = _seq(sub)
        if hi == sc.MAXREPEAT:
            if lo == 0:
                return z3.Star(r)
            if lo == 1:
                return z3.Plus(r)
            return z3.Concat(z3.Loop(r, lo, lo), z3.Star(r))
        if (lo, hi) == (0, 1):
            return z3.Option(r)
        return z3.Loop(r, lo, hi)
    if op == sc.SUBPATTERN:
        return _seq(av[3])
    if op == sc.BRANCH:
        return z3.Union(*[_seq(b) for b in av[1]])
    if op == sc.ANY:
        return z3.AllChar(z3.ReSort(z3.StringSort()))
    raise NotImplementedError(op)


def to_z3(pattern):
    if isinstance(pattern, re.Pattern):
        pattern = pattern.pattern
    return _seq(sp.parse(pattern))
