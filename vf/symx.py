"""symx -- a small symbolic executor for duck-typed numeric Python.

The *real* svgpathtools functions are run on the value classes defined here
(SR = symbolic real, SC = symbolic complex, SB = symbolic bool).  Arithmetic
builds z3 terms; every truth test of an SB (``if``, ``and``, ``min``,
``sorted`` ...) becomes a feasibility question to z3 and, when both outcomes
are consistent with the path condition, a fork that `explore` enumerates by
re-execution (decision-vector DFS, the CrossHair scheme).

Nothing here knows anything about svgpathtools.
"""
import itertools
import time
from fractions import Fraction

import z3


class Abort(BaseException):
    """path abandoned by the executor (infeasible / over budget)."""


class PathLimit(BaseException):
    pass


class NonFinite(FloatingPointError):
    """numpy-style arithmetic left the finite reals (x/0 on numpy scalars,
    sqrt of a negative number...).  Raised instead of producing nan/inf."""


OPTS = {
    'feas_timeout_ms': 10000,   # per feasibility query
    'abs_fork': True,           # abs() forks (True) or becomes an If-term
    'family_budget_s': None,    # default wall budget of one explore() call
}


class Ctx:
    cur = None

    def __init__(self, prefix=(), logic='QF_NRA'):
        self.decisions = [list(d) for d in prefix]
        self.pos = 0
        self.pc = []
        self.solver = z3.SolverFor(logic) if logic else z3.Solver()
        self.solver.set('timeout', OPTS['feas_timeout_ms'])
        self.nq = 0
        self.tq = 0.0
        self.unknown_feas = 0
        self.models = []
        self.counter = itertools.count()
        self.sqrt_memo = {}
        self.notes = []          # harness annotations (e.g. stub contracts used)
        self.atoms = {}          # name -> z3 const for fresh atoms

    # -- assumptions -------------------------------------------------------
    def assume(self, *conds):
        for c in conds:
            if isinstance(c, SB):
                c = c.e
            if isinstance(c, bool):
                if not c:
                    raise Abort()
                continue
            self.pc.append(c)
            self.solver.add(c)
            self.models = [m for m in self.models if _mtrue(m, c)]

    def fresh(self, name='v'):
        n = '%s!%d' % (name, next(self.counter))
        v = z3.Real(n)
        self.atoms[n] = v
        return v

    def fresh_bool(self, name='b'):
        return z3.Bool('%s!%d' % (name, next(self.counter)))

    # -- feasibility -------------------------------------------------------
    def _check(self, c):
        for m in (self.models if OPTS.get('model_cache', True) else ()):
            if _mtrue(m, c):
                return 'sat'
        self.nq += 1
        t0 = time.time()
        self.solver.push()
        self.solver.add(c)
        r = str(self.solver.check())
        if r == 'sat' and OPTS.get('model_cache', True):
            try:
                self.models.append(self.solver.model())
                if len(self.models) > 6:
                    self.models.pop(0)
            except z3.Z3Exception:
                pass
        self.solver.pop()
        self.tq += time.time() - t0
        if r == 'unknown':
            self.unknown_feas += 1
        return r

    def branch(self, cond):
        cond = z3.simplify(cond)
        if z3.is_true(cond):
            return True
        if z3.is_false(cond):
            return False
        if self.pos < len(self.decisions):
            d = self.decisions[self.pos][0]
        else:
            t = self._check(cond)
            if t == 'unsat':
                # pc is satisfiable by construction, so Not(cond) is feasible
                self.decisions.append([False, False])
            else:
                f = self._check(z3.Not(cond))
                if f == 'unsat':
                    self.decisions.append([True, False])
                else:
                    self.decisions.append([True, True])
            d = self.decisions[self.pos][0]
        self.pos += 1
        c = cond if d else z3.Not(cond)
        self.pc.append(c)
        self.solver.add(c)
        if self.models:
            self.models = [m for m in self.models if _mtrue(m, c)]
        return d


def _mtrue(m, c):
    try:
        return z3.is_true(m.eval(c, model_completion=True))
    except z3.Z3Exception:
        return False


def explore(fn, maxpaths=100000, logic='QF_NRA', budget_s=None):
    """Run fn() under every feasible decision vector.
    Yields (ctx, (kind, value)) with kind in ok / exc / abort."""
    prefix = []
    n = 0
    t0 = time.time()
    if budget_s is None:
        budget_s = OPTS.get('family_budget_s')
    while True:
        ctx = Ctx(prefix, logic)
        Ctx.cur = ctx
        try:
            res = ('ok', fn())
        except Abort:
            res = ('abort', None)
        except Exception as e:   # exceptions of the code under test are results
            res = ('exc', e)
        n += 1
        yield ctx, res
        dec = ctx.decisions[:ctx.pos]
        while dec and not (dec[-1][1] and dec[-1][0]):
            dec.pop()
        if not dec:
            return
        if n >= maxpaths or (budget_s is not None and time.time() - t0 > budget_s):
            raise PathLimit('path bound hit after %d paths' % n)
        dec[-1] = [False, False]
        prefix = dec


# --------------------------------------------------------------------------
# values
# --------------------------------------------------------------------------

def _rv(x):
    """exact z3 numeral for a python number (floats through their repr:
    this is the *real-number* model; 0.1 means one tenth)."""
    if isinstance(x, bool):
        return z3.RealVal(int(x))
    if isinstance(x, int):
        return z3.RealVal(x)
    if isinstance(x, Fraction):
        return z3.RealVal(str(x))
    if isinstance(x, float):
        if x != x or x in (float('inf'), float('-inf')):
            raise NonFinite('non-finite constant %r' % x)
        r = repr(float(x))              # numpy scalars are floats whose repr is 'np.float64(...)'
        if 'e' in r or 'E' in r:
            from decimal import Decimal
            return z3.RealVal(str(Fraction(Decimal(r))))      # z3 does not read exponent notation
        return z3.RealVal(r)
    raise TypeError(type(x))


def lift(x):
    if isinstance(x, SR):
        return x
    if isinstance(x, (bool, int, float, Fraction)):
        return SR(_rv(x))
    import numpy as np
    if isinstance(x, np.bool_):
        return SR(_rv(bool(x)))
    if isinstance(x, np.integer):
        return SR(_rv(int(x)))
    if isinstance(x, np.floating):
        return SR(_rv(float(x)))
    if isinstance(x, z3.ArithRef):
        return SR(x)
    return NotImplemented


def _is_cplx(o):
    import numpy as np
    return isinstance(o, (complex, SC, np.complexfloating))


class SB:
    """symbolic bool; truth-testing it forks the execution."""
    __slots__ = ('e',)

    def __init__(s, e):
        s.e = e

    def __bool__(s):
        return Ctx.cur.branch(s.e)

    def __int__(s):
        return int(bool(s))

    def __index__(s):
        return int(bool(s))

    def _o(s, o):
        return o.e if isinstance(o, SB) else z3.BoolVal(bool(o))

    def __and__(s, o):
        return SB(z3.And(s.e, s._o(o)))
    __rand__ = __and__

    def __or__(s, o):
        return SB(z3.Or(s.e, s._o(o)))
    __ror__ = __or__

    def __invert__(s):
        return SB(z3.Not(s.e))

    def __eq__(s, o):
        return SB(s.e == s._o(o))

    def __ne__(s, o):
        return SB(s.e != s._o(o))
    __hash__ = None

    def __repr__(s):
        return 'SB(%s)' % s.e


def zbool(x):
    """z3 Bool of an SB / python bool (no fork)."""
    if isinstance(x, SB):
        return x.e
    return z3.BoolVal(bool(x))


class SR:
    """symbolic real."""
    __slots__ = ('e', 'tag')

    def __init__(s, e, tag=None):
        s.e = e
        s.tag = tag

    real = property(lambda s: s)
    imag = property(lambda s: SR(z3.RealVal(0)))

    def conjugate(s):
        return s

    # arithmetic ---------------------------------------------------------
    def _b(s, o, f):
        if _is_cplx(o):
            return NotImplemented
        o = lift(o)
        if o is NotImplemented:
            return o
        return SR(f(s.e, o.e))

    def __add__(s, o):
        if _is_cplx(o):
            return SC(s, 0) + o
        return s._b(o, lambda a, b: a + b)
    __radd__ = __add__

    def __sub__(s, o):
        if _is_cplx(o):
            return SC(s, 0) - o
        return s._b(o, lambda a, b: a - b)

    def __rsub__(s, o):
        if _is_cplx(o):
            return tosc(o) - SC(s, 0)
        return s._b(o, lambda a, b: b - a)

    def __mul__(s, o):
        if _is_cplx(o):
            return SC(s, 0) * o
        return s._b(o, lambda a, b: a * b)
    __rmul__ = __mul__

    def __truediv__(s, o):
        if _is_cplx(o):
            return SC(s, 0) / o
        o = lift(o)
        if o is NotImplemented:
            return o
        _nonzero(o)
        return SR(s.e / o.e)

    def __rtruediv__(s, o):
        if _is_cplx(o):
            return tosc(o) / SC(s, 0)
        o = lift(o)
        if o is NotImplemented:
            return o
        _nonzero(s)
        return SR(o.e / s.e)

    def __floordiv__(s, o):
        o = lift(o)
        if o is NotImplemented:
            return o
        _nonzero(o)
        return SR(z3.ToReal(z3.ToInt(s.e / o.e)))      # z3's to_int is the floor

    def __neg__(s):
        return SR(-s.e)

    def __pos__(s):
        return s

    def __pow__(s, n):
        if isinstance(n, float) and n == int(n):
            n = int(n)
        if isinstance(n, float) and n * 2 == int(n * 2) and n > 0:
            # x ** (k/2) for x >= 0
            return s.sqrt() ** int(n * 2)
        if isinstance(n, float) and n * 2 == int(n * 2) and n < 0:
            return 1 / (s ** (-n))
        if not isinstance(n, int):
            import numpy as np
            if isinstance(n, np.integer):
                n = int(n)
            else:
                return NotImplemented
        if n < 0:
            return 1 / (s ** (-n))
        r = SR(z3.RealVal(1))
        for _ in range(n):
            r = r * s
        return r

    def __abs__(s):
        if OPTS['abs_fork']:
            if s >= 0:
                return s
            return -s
        return SR(z3.If(s.e >= 0, s.e, -s.e))

    # comparisons --------------------------------------------------------
    def _c(s, o, f):
        if isinstance(o, float) and o in (float('inf'), float('-inf')):
            big = z3.RealVal(1)
            return SB(z3.BoolVal(bool(f(0, 1) if o > 0 else f(1, 0))))
        o = lift(o)
        if o is NotImplemented:
            return o
        # sqrt is monotone: compare two square roots through their radicands
        if s.tag and o.tag and s.tag[0] == 'sqrt' and o.tag[0] == 'sqrt':
            return SB(f(s.tag[1], o.tag[1]))
        if OPTS.get('sympy_normalise'):
            r = _normalise(s.e - o.e)
            if OPTS.get('cmp_clear_den') and z3.is_app_of(r, z3.Z3_OP_DIV):
                # num/den ~ 0 with den != 0 (every division forked on a zero divisor): decide on the sign of den,
                # so that the query stays linear when num and den are
                num, den = r.arg(0), r.arg(1)
                zero = z3.RealVal(0)
                return SB(z3.Or(z3.And(den > 0, f(num, zero)), z3.And(den < 0, f(-num, zero))))
            return SB(f(r, z3.RealVal(0)))
        return SB(f(s.e, o.e))

    def __eq__(s, o):
        if _is_cplx(o):
            return SC(s, 0) == o
        if o is None or isinstance(o, str):
            return False
        return s._c(o, lambda a, b: a == b)

    def __ne__(s, o):
        if _is_cplx(o):
            return SC(s, 0) != o
        if o is None or isinstance(o, str):
            return True
        return s._c(o, lambda a, b: a != b)

    def __lt__(s, o):
        return s._c(o, lambda a, b: a < b)

    def __le__(s, o):
        return s._c(o, lambda a, b: a <= b)

    def __gt__(s, o):
        return s._c(o, lambda a, b: a > b)

    def __ge__(s, o):
        return s._c(o, lambda a, b: a >= b)

    def __hash__(s):       # sets / dicts then decide by __eq__ (a fork)
        return 0

    def __bool__(s):
        return bool(s != 0)

    # numpy ufunc protocol: np.sqrt(x) -> x.sqrt() ----------------------
    def sqrt(s):
        """numpy/math sqrt of a real: nan (NonFinite here) for negatives."""
        c = Ctx.cur
        if not (s >= 0):
            raise NonFinite('sqrt of a negative number')
        return SR(sqrt_atom(s.e), tag=('sqrt', s.e))

    def __format__(s, spec):
        # '', 'r', 's' and >= 17 significant digits print a double so that float() gives it back (the model float(repr(x)) == x);
        # any other float presentation ('g', '.3f', ...) rounds: the printed literal stands for an unknown function of the value
        if spec in ('', 'r', 's'):
            return TOK.make(s)
        import re as _re
        m = _re.fullmatch(r'(?:.?[<>=^])?[-+ ]?#?0?\d*[,_]?(?:\.(\d+))?([eEfFgGn%])?', spec)
        if m and m.group(2) in ('e', 'E', 'g', 'G') and m.group(1) is not None and int(m.group(1)) >= 17:
            return TOK.make(s)
        f = z3.Function('formatted_' + _re.sub(r'[^0-9A-Za-z]', '_', spec), z3.RealSort(), z3.RealSort())
        return TOK.make(SR(f(s.e)))

    def __str__(s):
        return TOK.make(s)

    def __repr__(s):
        return 'SR(%s)' % (s.e,)


def _nonzero(d):
    """fork on a zero denominator: Python float/complex division raises."""
    if not (d != 0):
        raise ZeroDivisionError('division by zero')


def sqrt_atom(e):
    """fresh q with q >= 0, q*q == e (memoised per path on the term)."""
    c = Ctx.cur
    e = z3.simplify(e)
    if z3.is_rational_value(e):
        fr = Fraction(e.numerator_as_long(), e.denominator_as_long())
        import math
        n, d = fr.numerator, fr.denominator
        rn, rd = math.isqrt(n), math.isqrt(d)
        if rn * rn == n and rd * rd == d:
            return z3.RealVal(str(Fraction(rn, rd)))
    k = e.get_id()
    if k in c.sqrt_memo:
        return c.sqrt_memo[k][1]
    if OPTS.get('sqrt_sympy'):
        r = _perfect_square_root(e)
        if r is not None:
            val = r if SB(_normalise(r) >= 0) else -r      # fork instead of an If-term: keeps later terms rational functions
            c.sqrt_memo[k] = (e, val)
            return val
    q = c.fresh('sq')
    c.sqrt_memo[k] = (e, q)   # keep e alive so the id stays valid
    c.assume(q >= 0, q * q == e)
    return q


def _to_sympy(e, syms):
    import sympy
    if z3.is_rational_value(e):
        return sympy.Rational(e.numerator_as_long(), e.denominator_as_long())
    if z3.is_const(e):
        nm = e.decl().name()
        if nm not in syms:
            syms[nm] = (sympy.Symbol(nm.replace('!', '_').replace('.', '_'), real=True), e)
        return syms[nm][0]
    ch = [_to_sympy(c_, syms) for c_ in e.children()]
    k = e.decl().kind()
    if k == z3.Z3_OP_ADD:
        return sympy.Add(*ch)
    if k == z3.Z3_OP_SUB:
        r = ch[0]
        for c_ in ch[1:]:
            r = r - c_
        return r
    if k == z3.Z3_OP_MUL:
        return sympy.Mul(*ch)
    if k == z3.Z3_OP_DIV:
        return ch[0] / ch[1]
    if k == z3.Z3_OP_UMINUS:
        return -ch[0]
    if k == z3.Z3_OP_POWER and ch[1].is_Integer:
        return ch[0] ** ch[1]
    raise NotImplementedError(str(e.decl()))


def _from_sympy(x, syms):
    import sympy
    if x.is_Rational:
        return z3.RealVal('%d/%d' % (x.p, x.q))
    if x.is_Symbol:
        for nm, (sy, ze) in syms.items():
            if sy == x:
                return ze
        raise KeyError(x)
    if x.is_Add:
        r = _from_sympy(x.args[0], syms)
        for a in x.args[1:]:
            r = r + _from_sympy(a, syms)
        return r
    if x.is_Mul:
        r = _from_sympy(x.args[0], syms)
        for a in x.args[1:]:
            r = r * _from_sympy(a, syms)
        return r
    if x.is_Pow and x.exp.is_Integer:
        b = _from_sympy(x.base, syms)
        n = int(x.exp)
        r = z3.RealVal(1)
        for _ in range(abs(n)):
            r = r * b
        return r if n >= 0 else 1 / r
    raise NotImplementedError(str(x))


_NORM_CACHE = {}


def _normalise(e):
    """rational-function normal form num/den (sympy cancel) of a z3 real term built from + - * / over constants;
    terms containing anything else (If, uninterpreted functions) are returned unchanged."""
    k = e.get_id()
    hit = _NORM_CACHE.get(k)
    if hit is not None and hit[0] is not None and z3.eq(hit[0], e):
        return hit[1]
    try:
        import sympy
        syms = {}
        x = sympy.cancel(sympy.together(_to_sympy(e, syms)))
        num, den = sympy.fraction(x)
        r = _from_sympy(sympy.expand(num), syms)
        if den != 1:
            r = r / _from_sympy(sympy.expand(den), syms)
    except Exception:
        r = e
    if len(_NORM_CACHE) > 20000:
        _NORM_CACHE.clear()
    _NORM_CACHE[k] = (e, r)
    return r


def _perfect_square_root(e):
    """if the rational function e is the square of a rational function r (as sympy sees it) return r as a
    z3 term -- but only after z3 itself has confirmed r*r == e as an identity (sympy proposes, the solver decides)."""
    try:
        import sympy
        syms = {}
        x = sympy.factor(sympy.together(_to_sympy(e, syms)))
        num, den = sympy.fraction(x)
        rn, rd = sympy.sqrt(num), sympy.sqrt(den)
        rn, rd = sympy.powdenest(rn, force=True), sympy.powdenest(rd, force=True)
        r = sympy.simplify(sympy.sqrt(x).rewrite(sympy.Abs)) if False else None
        # take square roots factor by factor
        def root(poly):
            c_, facs = sympy.factor_list(poly)
            if c_ < 0:
                return None
            rc = sympy.sqrt(c_)
            if not rc.is_Rational:
                return None
            out = rc
            for f_, m_ in facs:
                if m_ % 2:
                    return None
                out = out * f_ ** (m_ // 2)
            return out
        a, b = root(num), root(den)
        if a is None or b is None:
            return None
        rz = _from_sympy(sympy.expand(a), syms) / _from_sympy(sympy.expand(b), syms)
        s_ = z3.Solver()
        s_.set('timeout', 5000)
        for cnd in Ctx.cur.pc:
            s_.add(cnd)
        s_.add(z3.Not(rz * rz == e))
        if str(s_.check()) == 'unsat':
            return rz
    except Exception:
        return None
    return None


class NotImpl(Exception):
    pass


def tosc(o):
    if isinstance(o, SC):
        return o
    if isinstance(o, SR):
        return SC(o, lift(0))
    import numpy as np
    if isinstance(o, (complex, np.complexfloating)):
        o = complex(o)
        return SC(lift(o.real), lift(o.imag))
    l = lift(o)
    if l is NotImplemented:
        raise NotImpl()
    return SC(l, lift(0))


def _ni(f):
    def g(s, o):
        try:
            return f(s, o)
        except NotImpl:
            return NotImplemented
    g.__name__ = f.__name__
    return g


class SC:
    """symbolic complex = pair of SR."""
    __slots__ = ('real', 'imag', 'unit')

    def __init__(s, re, im, unit=False):
        s.real = lift(re)
        s.imag = lift(im)
        s.unit = unit      # known |z| = 1 (1/z = conj z)

    @_ni
    def __add__(s, o):
        o = tosc(o)
        return SC(s.real + o.real, s.imag + o.imag)
    __radd__ = __add__

    @_ni
    def __sub__(s, o):
        o = tosc(o)
        return SC(s.real - o.real, s.imag - o.imag)

    @_ni
    def __rsub__(s, o):
        o = tosc(o)
        return SC(o.real - s.real, o.imag - s.imag)

    @_ni
    def __mul__(s, o):
        if isinstance(o, SR) or (not _is_cplx(o)):
            o = lift(o)
            if o is NotImplemented:
                raise NotImpl()
            return SC(s.real * o, s.imag * o)
        o = tosc(o)
        return SC(s.real * o.real - s.imag * o.imag,
                  s.real * o.imag + s.imag * o.real)
    __rmul__ = __mul__

    @_ni
    def __truediv__(s, o):
        if isinstance(o, SR) or (not _is_cplx(o)):
            o = lift(o)
            if o is NotImplemented:
                raise NotImpl()
            _nonzero(o)
            return SC(SR(s.real.e / o.e), SR(s.imag.e / o.e))
        o = tosc(o)
        if o.unit:
            return s * SC(o.real, -o.imag)
        d = o.real * o.real + o.imag * o.imag
        _nonzero(d)
        return SC(SR((s.real * o.real + s.imag * o.imag).e / d.e),
                  SR((s.imag * o.real - s.real * o.imag).e / d.e))

    @_ni
    def __rtruediv__(s, o):
        return tosc(o) / s

    def __neg__(s):
        return SC(-s.real, -s.imag)

    def __pos__(s):
        return s

    def __pow__(s, n):
        if isinstance(n, float) and n == int(n):
            n = int(n)
        assert isinstance(n, int) and n >= 0
        r = SC(1, 0)
        for _ in range(n):
            r = r * s
        return r

    def __abs__(s):
        im = z3.simplify(s.imag.e)
        if z3.is_rational_value(im) and im.numerator_as_long() == 0:
            return abs(SR(z3.simplify(s.real.e)))
        rad = (s.real * s.real + s.imag * s.imag).e
        return SR(sqrt_atom(rad), tag=('sqrt', rad))

    def __eq__(s, o):
        if o is None or isinstance(o, str):
            return False
        try:
            o = tosc(o)
        except NotImpl:
            return NotImplemented
        if OPTS.get('sympy_normalise'):
            return SB(z3.And(_normalise(s.real.e - o.real.e) == 0, _normalise(s.imag.e - o.imag.e) == 0))
        return SB(z3.And(s.real.e == o.real.e, s.imag.e == o.imag.e))

    def __ne__(s, o):
        r = s.__eq__(o)
        if r is NotImplemented:
            return r
        if isinstance(r, bool):
            return not r
        return ~r

    def __hash__(s):
        return 0

    def __bool__(s):
        return bool(s != 0)

    def conjugate(s):
        return SC(s.real, -s.imag)

    def sqrt(s):
        """principal complex square root (numpy's branch cut): w*w = z,
        Re w >= 0, and Im w >= 0 when Re w = 0."""
        c = Ctx.cur
        a, b = c.fresh('csr'), c.fresh('csi')
        c.assume(a * a - b * b == s.real.e, 2 * a * b == s.imag.e, a >= 0,
                 z3.Implies(a == 0, b >= 0),
                 # numpy: sign of Im w follows sign of Im z
                 z3.Implies(s.imag.e > 0, b > 0), z3.Implies(s.imag.e < 0, b < 0))
        return SC(SR(a), SR(b))

    def __format__(s, spec):
        return '(%s+%sj)' % (TOK.make(s.real), TOK.make(s.imag))

    def __str__(s):
        return s.__format__('')

    def __repr__(s):
        return 'SC(%s, %s)' % (s.real.e, s.imag.e)


# --------------------------------------------------------------------------
# number <-> string crossing
# --------------------------------------------------------------------------

class TOK:
    """Symbolic reals are printed as unique placeholder literals that the
    real regexes tokenise like any other number; the `float` stub maps them
    back.  Models `float(repr(x)) == x`."""
    reg = {}

    byterm = {}

    @staticmethod
    def reset():
        TOK.reg = {}
        TOK.byterm = {}

    @staticmethod
    def make(sr):
        # repr is a function of the value: the same term is printed as the same literal
        tid = sr.e.get_id() if isinstance(sr, SR) else None
        hit = TOK.byterm.get(tid)
        if hit is not None and hit[1] is sr.e:
            return hit[0]
        k = '9.%06de+300' % (len(TOK.reg) + 1)
        TOK.reg[k] = sr
        if tid is not None:
            TOK.byterm[tid] = (k, sr.e)
        return k

    @staticmethod
    def tofloat(tok):
        if isinstance(tok, (SR,)):
            return tok
        if isinstance(tok, str):
            t = tok.strip()
            if t in TOK.reg:
                return TOK.reg[t]
            if t.startswith('-') and t[1:] in TOK.reg:
                return -TOK.reg[t[1:]]
            if t.startswith('+') and t[1:] in TOK.reg:
                return TOK.reg[t[1:]]
        return float(tok)


# --------------------------------------------------------------------------
# helpers for harnesses
# --------------------------------------------------------------------------

def symr(name):
    return SR(z3.Real(name))


def symc(name):
    return SC(SR(z3.Real(name + '.x')), SR(z3.Real(name + '.y')))


def ceq(a, b):
    """z3 Bool: complex (or real) values equal (no fork)."""
    a = tosc(a)
    b = tosc(b)
    return z3.And(a.real.e == b.real.e, a.imag.e == b.imag.e)


def req(a, b):
    a = lift(a)
    b = lift(b)
    return a.e == b.e


def sq(x):
    """x*x as a z3 term; for a sqrt atom its radicand (exact, smaller term)"""
    x = lift(x)
    if x.tag and x.tag[0] == 'sqrt':
        return x.tag[1]
    return x.e * x.e


def zabs(e):
    return z3.If(e >= 0, e, -e)


class FrozenModel:
    """values of the uninterpreted constants of a sat answer obtained in a
    forked child (z3 models cannot cross a process boundary)."""

    def __init__(self, vals):
        self.vals = vals     # name -> decimal / fraction string

    def eval(self, e, model_completion=True):
        subs = []
        seen = set()

        def walk(t):
            if t.get_id() in seen:
                return
            seen.add(t.get_id())
            if z3.is_const(t) and t.decl().kind() == z3.Z3_OP_UNINTERPRETED:
                nm = t.decl().name()
                if z3.is_real(t):
                    subs.append((t, z3.RealVal(self.vals.get(nm, '0'))))
                elif z3.is_bool(t):
                    subs.append((t, z3.BoolVal(self.vals.get(nm, 'False') == 'True')))
            else:
                for c in t.children():
                    walk(c)
        walk(e)
        return z3.simplify(z3.substitute(e, *subs)) if subs else z3.simplify(e)

    def decls(self):
        return []

    def __repr__(self):
        return 'FrozenModel(%s)' % (dict(list(self.vals.items())[:12]),)


def _model_values(m):
    out = {}
    for d in m.decls():
        if d.arity() != 0:
            continue
        v = m[d]
        try:
            if z3.is_rational_value(v):
                out[d.name()] = '%d/%d' % (v.numerator_as_long(), v.denominator_as_long())
            elif z3.is_algebraic_value(v):
                a = v.approx(30)
                out[d.name()] = '%d/%d' % (a.numerator_as_long(), a.denominator_as_long())
            elif z3.is_bool(v):
                out[d.name()] = str(z3.is_true(v))
        except Exception:
            pass
    return out


def _solve(assertions, timeout_ms):
    s = z3.Solver()
    s.set('timeout', int(timeout_ms))
    s.add(*assertions)
    t = time.time()
    r = str(s.check())
    dt = time.time() - t
    return r, dt, (s.model() if r == 'sat' else None)


def _solve_forked(assertions, timeout_ms):
    """the same query in a forked child that is KILLED when it overruns: z3's
    nlsat does not always honour its own timeout."""
    import os
    import pickle
    import select
    import signal
    rfd, wfd = os.pipe()
    t0 = time.time()
    pid = os.fork()
    if pid == 0:
        try:
            os.close(rfd)
            r, dt, m = _solve(assertions, timeout_ms)
            payload = (r, _model_values(m) if m is not None else None)
            os.write(wfd, pickle.dumps(payload))
        except BaseException:
            pass
        finally:
            os._exit(0)
    os.close(wfd)
    data = b''
    deadline = t0 + timeout_ms / 1000.0 + 3.0
    verdict, vals = 'unknown', None
    try:
        while True:
            left = deadline - time.time()
            if left <= 0:
                break
            rl, _, _ = select.select([rfd], [], [], min(left, 0.5))
            if rl:
                chunk = os.read(rfd, 1 << 16)
                if not chunk:
                    break
                data += chunk
            else:
                wp, _st = os.waitpid(pid, os.WNOHANG)
                if wp != 0:
                    pid = None
                    # drain
                    while True:
                        chunk = os.read(rfd, 1 << 16)
                        if not chunk:
                            break
                        data += chunk
                    break
        if data:
            verdict, vals = pickle.loads(data)
    except Exception:
        verdict, vals = 'unknown', None
    finally:
        os.close(rfd)
        if pid:
            try:
                os.kill(pid, signal.SIGKILL)
            except OSError:
                pass
            try:
                os.waitpid(pid, 0)
            except OSError:
                pass
    return verdict, time.time() - t0, (FrozenModel(vals) if verdict == 'sat' and vals is not None else None)


FAST_MS = 4000


def solve(assertions, timeout_ms):
    """(verdict, seconds, model): quick in-process attempt, then a forked,
    hard-limited attempt for the remaining budget."""
    r, dt, m = _solve(assertions, min(timeout_ms, FAST_MS))
    if r != 'unknown' or timeout_ms <= FAST_MS:
        return r, dt, m
    r2, dt2, m2 = _solve_forked(assertions, timeout_ms - FAST_MS)
    return r2, dt + dt2, m2


def prove(ctx, claim, timeout_ms=20000, extra=()):
    """pc /\\ extra => claim ?  returns (verdict, seconds, model|None)
    verdict: 'unsat' = holds on this path for all values; 'sat' = model is a
    candidate counterexample; 'unknown' = inconclusive."""
    return solve(list(ctx.pc) + list(extra) + [z3.Not(claim)], timeout_ms)


def check_sat(ctx, extra=(), timeout_ms=20000):
    return solve(list(ctx.pc) + list(extra), timeout_ms)


def mval(m, e, default=0.0):
    """python float of a z3 real term under model m."""
    if isinstance(e, (SR,)):
        e = e.e
    if isinstance(e, (int, float)):
        return float(e)
    v = m.eval(e, model_completion=True)
    if z3.is_rational_value(v):
        return float(Fraction(v.numerator_as_long(), v.denominator_as_long()))
    if z3.is_algebraic_value(v):
        a = v.approx(20)
        return float(Fraction(a.numerator_as_long(), a.denominator_as_long()))
    try:
        return float(v.as_decimal(17).rstrip('?'))
    except Exception:
        return default


def mcval(m, z):
    z = tosc(z)
    return complex(mval(m, z.real), mval(m, z.imag))
