"""Pseudo-division strategy for vf/cert.py: reduce the numerator N along the tower of atoms.

Each polynomial relation g == 0 of the path condition has a main variable (the atom it defines: a sqrt atom q with
q*q == radicand, the sine of a unit pair, a named quotient).  Atoms are eliminated from the most recently created to
the oldest by pseudo-division in the main variable:   lc(g)^k * rem = Q * g + r,  deg_q r < deg_q g.
If the last remainder is 0 this yields   M * N = sum_i C_i g_i   with M a product of powers of leading coefficients.
sympy only proposes M and the C_i; z3 checks the identity, and that M != 0 under the path condition.
"""
import sympy


def _counter(sy):
    nm = sy.name
    if '_' in nm and nm.rsplit('_', 1)[1].isdigit():
        return int(nm.rsplit('_', 1)[1])
    return -1


def tower_certificate(num, gens_rel):
    """num: sympy polynomial; gens_rel: list of sympy polynomials g (g == 0).
    returns (M, [C_i]) with M*num == sum C_i*g_i, or None."""
    rels = []
    for idx, g in enumerate(gens_rel):
        syms = sorted(g.free_symbols, key=_counter, reverse=True)
        if not syms or _counter(syms[0]) < 0:
            # no atom in it: take the alphabetically last named symbol of highest degree 1 (a definition), else skip
            cand = [s_ for s_ in g.free_symbols if sympy.degree(g, s_) == 1]
            if not cand:
                continue
            main = sorted(cand, key=lambda s_: s_.name)[-1]
        else:
            main = syms[0]
        rels.append((_counter(main), main, g, idx))
    rels.sort(key=lambda r: r[0], reverse=True)
    rem = sympy.expand(num)
    M = sympy.Integer(1)
    C = [sympy.Integer(0)] * len(gens_rel)
    for _, main, g, idx in rels:
        if rem == 0:
            break
        if main not in rem.free_symbols:
            continue
        dr, dg = sympy.degree(rem, main), sympy.degree(g, main)
        if dr < dg:
            continue
        Q, r = sympy.pdiv(rem, g, main)
        mult = sympy.LC(g, main) ** (dr - dg + 1)
        C = [sympy.expand(c * mult) for c in C]
        C[idx] = sympy.expand(C[idx] + Q)
        M = sympy.expand(M * mult)
        rem = sympy.expand(r)
    if rem != 0:
        return None
    return M, C
