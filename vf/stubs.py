"""Environment stubs injected into the *module namespaces* of the imported
svgpathtools modules for the duration of a symbolic run (no repo edit).
Each stub's contract is part of the claim and is named in the evidence."""
import contextlib

import numpy as _np
import z3

from .symx import SR, SC, SB, lift, tosc, Ctx, TOK, zabs, NonFinite


def _issym(x):
    return isinstance(x, (SR, SC, SB))


class NPProxy:
    """forwards to numpy except for the few functions that must see symbolic
    scalars."""

    def __init__(self, **over):
        self._over = over
        self.__dict__.update(over)      # instance attributes win over the class's static isclose / clip

    def __getattr__(self, n):
        if n in self._over:
            return self._over[n]
        return getattr(_np, n)

    @staticmethod
    def isclose(a, b, rtol=1e-5, atol=1e-8):
        """numpy.isclose's defining inequality |a-b| <= atol + rtol*|b|."""
        if not (_issym(a) or _issym(b)):
            return _np.isclose(a, b, rtol=rtol, atol=atol)
        if isinstance(a, SC) or isinstance(b, SC) or isinstance(a, complex) or isinstance(b, complex):
            a = tosc(a)
            b = tosc(b)
            return abs(a - b) <= atol + rtol * abs(b)
        a = lift(a)
        b = lift(b)
        d = a - b
        from . import symx as _sx
        if _sx.OPTS.get('sympy_normalise'):
            return SB(zabs(_sx._normalise(d.e)) <= atol + rtol * zabs(_sx._normalise(b.e)))
        return SB(zabs(d.e) <= atol + rtol * zabs(b.e))

    @staticmethod
    def allclose(a, b, rtol=1e-5, atol=1e-8):
        """numpy.allclose = all(isclose) element by element (forks on symbolic entries)."""
        if getattr(b, '_never_equal', False) or getattr(a, '_never_equal', False):
            return False
        a_, b_ = _np.asarray(a, dtype=object).ravel(), _np.asarray(b, dtype=object).ravel()
        if not any(_issym(x) for x in list(a_) + list(b_)):
            return _np.allclose(a, b, rtol=rtol, atol=atol)
        if len(b_) == 1 and len(a_) > 1:
            b_ = [b_[0]] * len(a_)
        for x, y in zip(a_, b_):
            if not NPProxy.isclose(x, y, rtol=rtol, atol=atol):
                return False
        return True

    @staticmethod
    def clip(x, lo, hi):
        if not _issym(x):
            return _np.clip(x, lo, hi)
        if x < lo:
            return lift(lo)
        if x > hi:
            return lift(hi)
        return x

    inf = _np.inf
    pi = _np.pi


def float_stub(x):
    return TOK.tofloat(x)


def isnan_stub(x):
    if _issym(x):
        return False
    return _np.isnan(x)


@contextlib.contextmanager
def patched(module, **names):
    """temporarily bind names in a module's global namespace."""
    missing = object()
    old = {k: module.__dict__.get(k, missing) for k in names}
    module.__dict__.update(names)
    try:
        yield
    finally:
        for k, v in old.items():
            if v is missing:
                module.__dict__.pop(k, None)
            else:
                module.__dict__[k] = v


# --------------------------------------------------------------------------
# numpy.trim_zeros (used by poly1d.__init__) evaluates `coeff != 0` for EVERY
# coefficient at once, which forks 2^n ways on symbolic coefficients although
# only the leading run of zeros matters.  For 1-D object arrays we substitute
# the sequential definition (scan from the front, stop at the first non-zero):
# identical result, linear number of forks.
import numpy.lib._polynomial_impl as _PI
_orig_trim_zeros = _PI.trim_zeros


NO_TRIM = [False]   # harness option: keep possibly-zero symbolic leading coefficients (value-preserving
                    # for +, *, deriv, integ and evaluation; used where only values matter)


def _trim_zeros_seq(filt, trim='fb', axis=None):
    a = _np.asarray(filt)
    if a.dtype == object and a.ndim == 1 and trim.lower() == 'f' and axis is None:
        i = 0
        n = len(a)
        while i < n - 1:
            x = a[i]
            if NO_TRIM[0] and _issym(x):
                break
            if x != 0:
                break
            i += 1
        else:
            if n and not (NO_TRIM[0] and _issym(a[n - 1])) and not (a[n - 1] != 0):
                i = n
        return filt[i:]
    return _orig_trim_zeros(filt, trim=trim, axis=axis)


_PI.trim_zeros = _trim_zeros_seq


def sym_min(*args, **kw):
    """builtin min on symbolic reals as an If-term (no fork); falls back to the
    builtin for anything else (keys, concrete values)."""
    xs = list(args[0]) if len(args) == 1 else list(args)
    if kw or not any(isinstance(x, SR) for x in xs):
        return min(*args, **kw)
    r = lift(xs[0]).e
    for x in xs[1:]:
        x = lift(x).e
        r = z3.If(x < r, x, r)
    return SR(r)


def sym_max(*args, **kw):
    xs = list(args[0]) if len(args) == 1 else list(args)
    if kw or not any(isinstance(x, SR) for x in xs):
        return max(*args, **kw)
    r = lift(xs[0]).e
    for x in xs[1:]:
        x = lift(x).e
        r = z3.If(x > r, x, r)
    return SR(r)
