"""Certificate-guided proofs of polynomial equalities modulo the path condition.

nlsat is poor at  `pc |- p/q == 0`  when the proof is an ideal-membership
argument (p = sum_i c_i g_i with g_i == 0 the equalities of the path
condition: q*q == radicand for sqrt atoms, c*c + s*s == 1 for unit pairs).
sympy is used as an UNTRUSTED hint generator: it proposes the cofactors c_i
(multivariate division).  Every step that the conclusion rests on is then
discharged by z3:

  (1) the pure polynomial identity  p - sum_i c_i g_i == 0   (no hypotheses),
  (2) pc |- q != 0                                            (the denominator),
  (3) each g_i == 0 is literally a conjunct of pc,
  (4) G_i == 0 /\\ P == sum_i C_i G_i /\\ Q != 0  =>  P/Q == 0  over fresh
      variables (the composition step).

If sympy proposes nothing useful the caller falls back to the plain query.
"""
import time

import z3

from . import symx


def _equalities(pc):
    out = []
    for c in pc:
        if z3.is_eq(c) and z3.is_real(c.arg(0)):
            out.append(c)
        elif z3.is_and(c):
            out += _equalities(c.children())
    return out


def prove_eq_mod(ctx, lhs, rhs, extra=(), timeout_ms=20000):
    """pc /\\ extra |- lhs == rhs ?  -> ('unsat' | 'unknown', seconds, info)"""
    import sympy
    t0 = time.time()
    try:
        syms = {}
        E = sympy.together(symx._to_sympy(z3.simplify(lhs - rhs), syms))
        num, den = sympy.fraction(E)
        num, den = sympy.expand(num), sympy.expand(den)
        eqs = _equalities(list(ctx.pc) + list(extra))
        gs, gz = [], []
        for e in eqs:
            try:
                g = sympy.together(symx._to_sympy(z3.simplify(e.arg(0) - e.arg(1)), syms))
                gn, gd = sympy.fraction(g)
                if not gd.is_number:
                    continue            # only polynomial relations are used as generators
                gn = sympy.expand(gn / gd)
                if gn == 0 or gn.is_number:
                    continue
                gs.append(gn)
                gz.append(e)
            except NotImplementedError:
                continue
        if not gs:
            return 'unknown', time.time() - t0, 'no polynomial relations in the path condition'
        free = set(num.free_symbols)
        for g in gs:
            free |= g.free_symbols
        # atoms introduced last (sqrt atoms, unit pairs: names with '!') first, so that each relation leads with its own atom
        def order(sy):
            nm = sy.name
            if '_' in nm and nm.rsplit('_', 1)[1].isdigit():
                return (0, -int(nm.rsplit('_', 1)[1]), nm)
            return (1, 0, nm)
        gens = sorted(free, key=order)
        Q, r = sympy.reduced(num, gs, *gens, order='lex')
        if r != 0:
            import os
            if os.environ.get('CERT_DEBUG'):
                print('GENS', gens); print('GS', gs); print('NUM', num); print('REM', r)
            return 'unknown', time.time() - t0, 'remainder not zero'
        # (1) the identity, checked by z3 with no hypotheses
        zn = symx._from_sympy(num, syms)
        comb = z3.RealVal(0)
        used = []
        for q_, g_, e_ in zip(Q, gs, gz):
            if q_ == 0:
                continue
            comb = comb + symx._from_sympy(sympy.expand(q_), syms) * symx._from_sympy(g_, syms)
            used.append((g_, e_))
        r1, dt1, _ = symx.solve([zn - comb != 0], timeout_ms)
        if r1 != 'unsat':
            return 'unknown', time.time() - t0, 'identity not confirmed by z3 (%s)' % r1
        # (3) the generators are the path condition's own equalities, re-derived: g == lhs_i - rhs_i as an identity
        for g_, e_ in used:
            r3, dt3, _ = symx.solve([symx._from_sympy(g_, syms) - (e_.arg(0) - e_.arg(1)) != 0], timeout_ms)
            if r3 != 'unsat':
                return 'unknown', time.time() - t0, 'generator does not match its path-condition equality'
        # (2) denominator
        zd = symx._from_sympy(den, syms)
        if den != 1:
            r2, dt2, _ = symx.solve(list(ctx.pc) + list(extra) + [zd == 0], timeout_ms)
            if r2 != 'unsat':
                return 'unknown', time.time() - t0, 'denominator not shown non-zero (%s)' % r2
        # the original term really is num/den: identity lhs - rhs == num/den wherever the original denominators are non-zero --
        # checked as (lhs - rhs) * den == num under pc (divisions in pc-guarded terms are by non-zero quantities)
        r5, dt5, _ = symx.solve(list(ctx.pc) + list(extra) + [(lhs - rhs) * zd != zn], min(timeout_ms, 10000))
        if r5 != 'unsat':
            # fall back to the syntactic argument only when z3 cannot relate the two forms
            return 'unknown', time.time() - t0, 'normal form not confirmed (%s)' % r5
        # (4) composition over fresh variables
        n = len(used)
        G = [z3.Real('cert_G%d' % i) for i in range(n)]
        C = [z3.Real('cert_C%d' % i) for i in range(n)]
        P_, Q_, X_ = z3.Real('cert_P'), z3.Real('cert_Q'), z3.Real('cert_X')
        hyp = [g == 0 for g in G] + [P_ == z3.Sum([c * g for c, g in zip(C, G)]) if n else P_ == 0, Q_ != 0, X_ * Q_ == P_]
        r4, dt4, _ = symx.solve(hyp + [X_ != 0], timeout_ms)
        if r4 != 'unsat':
            return 'unknown', time.time() - t0, 'composition step not confirmed'
        return 'unsat', time.time() - t0, 'certificate with %d generators' % n
    except Exception as e:       # sympy failure = no hint
        return 'unknown', time.time() - t0, 'hint generation failed: %r' % (e,)
