"""Certificate-guided proofs of equalities between rational-function terms modulo the path condition.

nlsat is poor at  `pc |- E == 0`  when the proof is an ideal-membership
argument: E = N/D with N = sum_i c_i g_i, where g_i == 0 are the polynomial
equalities of the path condition (q*q == radicand for sqrt atoms,
c*c + s*s == 1 for unit pairs, definitions).  Here

  (a) E is brought to the form N/D by this module's own fraction arithmetic
      (a/b + c/d = (ad + cb)/(bd), ... : no cancellation, no sympy), which is
      valid wherever every divisor occurring in E is non-zero;
  (b) each such divisor is shown non-zero under pc by z3 (usually it is
      literally a conjunct of pc, because every division forked on it);
  (c) sympy -- UNTRUSTED, a hint generator -- proposes cofactors c_i by
      multivariate division of N by the g_i;
      (first by pseudo-division along the tower of atoms, vf/certpd.py, which yields
      M N = sum_i c_i g_i with M a product of leading coefficients shown non-zero by
      z3; then by plain multivariate division, M = 1);
  (d) z3 checks the pure polynomial identity  M N - sum_i c_i g_i == 0  with no
      hypotheses, each g_i being the numerator (same fraction arithmetic,
      divisors shown non-zero) of lhs - rhs of an equality that is a conjunct of pc;
  (e) z3 checks the composition step over fresh variables:
      G_i == 0, P == sum_i C_i G_i, Q != 0, X Q == P  =>  X == 0.

Applications of uninterpreted functions are treated as opaque constants.
If any step fails the caller falls back to the plain query.
"""
import os
import time

import z3

from . import symx


def _equalities(pc):
    out = []
    for c in pc:
        if z3.is_eq(c) and z3.is_real(c.arg(0)):
            out.append(c)
        elif z3.is_and(c):
            out += _equalities(c.children())
    return out


def _abstract_ufs(terms):
    """replace applications of uninterpreted functions by fresh constants (the same application -> the same constant):
    an equality proved with them opaque holds a fortiori."""
    found = {}

    def walk(t, seen):
        if t.get_id() in seen:
            return
        seen.add(t.get_id())
        if z3.is_app(t) and t.decl().kind() == z3.Z3_OP_UNINTERPRETED and t.num_args() > 0:
            found.setdefault(t.get_id(), t)
            return
        for c in t.children():
            walk(c, seen)
    seen = set()
    for t in terms:
        walk(t, seen)
    if not found:
        return terms
    sub = [(t, z3.Real('cert_uf_%d' % i)) for i, t in enumerate(found.values())]
    return [z3.substitute(t, *sub) for t in terms]


class NotRational(Exception):
    pass


def ratfun(e, memo, divisors):
    """(N, D): polynomial z3 terms with e == N/D wherever all recorded divisors are non-zero."""
    k = e.get_id()
    if k in memo:
        return memo[k]
    one = z3.RealVal(1)
    if z3.is_rational_value(e) or z3.is_const(e):
        r = (e, one)
    else:
        kind = e.decl().kind()
        if kind not in (z3.Z3_OP_ADD, z3.Z3_OP_SUB, z3.Z3_OP_MUL, z3.Z3_OP_DIV, z3.Z3_OP_UMINUS, z3.Z3_OP_POWER):
            raise NotRational(str(e.decl()))
        if kind == z3.Z3_OP_POWER:
            ex = e.arg(1)
            if not (z3.is_rational_value(ex) and ex.denominator_as_long() == 1 and 0 <= ex.numerator_as_long() <= 12):
                raise NotRational('power')
            b = ratfun(e.arg(0), memo, divisors)
            n, d = one, one
            for _ in range(ex.numerator_as_long()):
                n, d = n * b[0], (b[1] if z3.eq(d, one) else (d if z3.eq(b[1], one) else d * b[1]))
            r = (n, d)
        else:
            ch = [ratfun(c, memo, divisors) for c in e.children()]
            if kind in (z3.Z3_OP_ADD, z3.Z3_OP_SUB):
                n, d = ch[0]
                for (n2, d2) in ch[1:]:
                    if kind == z3.Z3_OP_SUB:
                        n2 = -n2
                    if z3.eq(d, d2):
                        n = n + n2
                    elif z3.eq(d2, one):
                        n = n + n2 * d
                    elif z3.eq(d, one):
                        n, d = n * d2 + n2, d2
                    else:
                        n, d = n * d2 + n2 * d, d * d2
                r = (n, d)
            elif kind == z3.Z3_OP_MUL:
                n, d = ch[0]
                for (n2, d2) in ch[1:]:
                    n = n * n2
                    d = d2 if z3.eq(d, one) else (d if z3.eq(d2, one) else d * d2)
                r = (n, d)
            elif kind == z3.Z3_OP_UMINUS:
                r = (-ch[0][0], ch[0][1])
            else:   # DIV
                (n1, d1), (n2, d2) = ch
                divisors.append(e.arg(1))
                n = n1 if z3.eq(d2, one) else n1 * d2
                d = n2 if z3.eq(d1, one) else d1 * n2
                r = (n, d)
    memo[k] = r
    return r


def _nonzero_in_pc(pc, d):
    """is `d != 0` (or a strict sign of d) literally a conjunct of pc?"""
    zero = z3.RealVal(0)

    def pair(a, b):
        return (z3.eq(a, d) and z3.eq(b, zero)) or (z3.eq(b, d) and z3.eq(a, zero))
    for c in pc:
        if z3.is_not(c) and z3.is_eq(c.arg(0)) and pair(c.arg(0).arg(0), c.arg(0).arg(1)):
            return True
        if z3.is_distinct(c) and c.num_args() == 2 and pair(c.arg(0), c.arg(1)):
            return True
        if (z3.is_gt(c) or z3.is_lt(c)) and pair(c.arg(0), c.arg(1)):
            return True
    return False


def prove_eq_mod(ctx, lhs, rhs, extra=(), timeout_ms=20000):
    """pc /\\ extra |- lhs == rhs ?  -> ('unsat' | 'unknown', seconds, info)"""
    import sympy
    t0 = time.time()
    dbg = os.environ.get('CERT_DEBUG')
    try:
        pcs = list(ctx.pc) + list(extra)
        allt = _abstract_ufs([lhs, rhs] + pcs)
        lhs, rhs, pcs = allt[0], allt[1], allt[2:]
        # (a) own fraction arithmetic
        divisors = []
        try:
            N, D = ratfun(lhs - rhs, {}, divisors)
        except NotRational as e:
            return 'unknown', time.time() - t0, 'not a rational-function term (%s)' % e
        # (b) divisors are non-zero under pc
        seen = set()
        for d in divisors:
            if d.get_id() in seen:
                continue
            seen.add(d.get_id())
            if z3.is_rational_value(d):
                if d.numerator_as_long() == 0:
                    return 'unknown', time.time() - t0, 'division by the constant zero'
                continue
            if _nonzero_in_pc(pcs, d):
                continue
            r2, dt2, _ = symx.solve(pcs + [d == 0], min(timeout_ms, 10000))
            if r2 != 'unsat':
                return 'unknown', time.time() - t0, 'divisor not shown non-zero (%s): %s' % (r2, str(d)[:80])
        # (c) cofactors proposed by sympy
        syms = {}
        num = sympy.expand(symx._to_sympy(N, syms))
        Q, gs, gz = [], [], []
        Mult = sympy.Integer(1)
        if num != 0:
            for e in _equalities(pcs):
                try:
                    # lhs - rhs = Ng/Dg by the same fraction arithmetic: lhs == rhs gives Ng == 0 (its divisors are non-zero, checked below when used)
                    gdivs = []
                    Ng, Dg = ratfun(e.arg(0) - e.arg(1), {}, gdivs)
                    gn = sympy.expand(symx._to_sympy(Ng, syms))
                    if gn == 0 or gn.is_number:
                        continue
                    gs.append(gn)
                    gz.append((Ng, gdivs))
                except (NotImplementedError, NotRational):
                    continue
            if not gs:
                return 'unknown', time.time() - t0, 'no polynomial relations in the path condition'
            free = set(num.free_symbols)
            for g in gs:
                free |= g.free_symbols

            # atoms introduced last (sqrt atoms, unit pairs: names ending in a counter) first, so that each relation leads with its own atom
            def order(sy):
                nm = sy.name
                if '_' in nm and nm.rsplit('_', 1)[1].isdigit():
                    return (0, -int(nm.rsplit('_', 1)[1]), nm)
                return (1, 0, nm)
            gens = sorted(free, key=order)
            # strategy A: pseudo-division along the tower of atoms (M * N = sum C_i g_i); strategy B: plain multivariate division
            from . import certpd
            tw = None
            try:
                tw = certpd.tower_certificate(num, gs)
            except Exception:
                tw = None
            if tw is not None:
                Mult, Q = tw
            else:
                Q, r = sympy.reduced(num, gs, *gens, order='lex')
                if r != 0:
                    if dbg:
                        print('GENS', gens); print('GS', gs); print('REM', str(r)[:600])
                    return 'unknown', time.time() - t0, 'remainder not zero'
        # (d) the identity, checked by z3 with no hypotheses; generators written from pc's own equalities
        comb = z3.RealVal(0)
        used = []
        for q_, (Ng, gdivs) in zip(Q, gz):
            if q_ == 0:
                continue
            for d in gdivs:
                if d.get_id() in seen or z3.is_rational_value(d):
                    continue
                seen.add(d.get_id())
                if _nonzero_in_pc(pcs, d):
                    continue
                r2, dt2, _ = symx.solve(pcs + [d == 0], min(timeout_ms, 10000))
                if r2 != 'unsat':
                    return 'unknown', time.time() - t0, 'divisor of a relation not shown non-zero (%s): %s' % (r2, str(d)[:80])
            comb = comb + symx._from_sympy(sympy.expand(q_), syms) * Ng
            used.append(Ng)
        Mz = symx._from_sympy(sympy.expand(Mult), syms)
        r1, dt1, _ = symx.solve([Mz * N - comb != 0], timeout_ms)
        if r1 != 'unsat':
            return 'unknown', time.time() - t0, 'identity not confirmed by z3 (%s)' % r1
        if not Mult.is_number:
            # the multiplier (a product of leading coefficients of the relations) must not vanish
            rM, dtM, _ = symx.solve(pcs + [Mz == 0], min(timeout_ms, 10000))
            if rM != 'unsat':
                return 'unknown', time.time() - t0, 'multiplier not shown non-zero (%s)' % rM
        elif Mult == 0:
            return 'unknown', time.time() - t0, 'zero multiplier'
        # (e) composition over fresh variables
        n = len(used)
        G = [z3.Real('cert_G%d' % i) for i in range(n)]
        C = [z3.Real('cert_C%d' % i) for i in range(n)]
        P_, Q_, X_ = z3.Real('cert_P'), z3.Real('cert_Q'), z3.Real('cert_X')
        M_ = z3.Real('cert_M')
        hyp = [g == 0 for g in G] + [M_ * P_ == (z3.Sum([c * g for c, g in zip(C, G)]) if n else 0), M_ != 0, Q_ != 0, X_ * Q_ == P_]
        r4, dt4, _ = symx.solve(hyp + [X_ != 0], timeout_ms)
        if r4 != 'unsat':
            return 'unknown', time.time() - t0, 'composition step not confirmed'
        return 'unsat', time.time() - t0, 'certificate with %d generators, %d divisors' % (n, len(seen))
    except Exception as e:       # sympy failure = no hint
        return 'unknown', time.time() - t0, 'hint generation failed: %r' % (e,)
