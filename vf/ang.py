"""Angle domain: an angle is carried as its degree value (z3 Real) together
with its (cos, sin) pair (z3 Reals constrained to the unit circle).  Closed
under negation, addition, shifts by multiples of 90 degrees, multiplication
by 0/1 and by a symbolic real (fresh unit pair).  arccos introduces the range
axioms of acos on [0,180].  No transcendental reasoning is done by the solver:
the only facts it gets are c^2+s^2=1, the angle-sum formulas and quadrant
axioms tying the sign of sin/cos to the degree value where that is known."""
import math

import z3

from .symx import SR, SC, SB, Ctx, lift, NonFinite


class Ang:
    __slots__ = ('d', 'c', 's', 'unit', '_pi')

    def __init__(s, d, c, sn, unit, _pi=False):
        s.d, s.c, s.s, s.unit, s._pi = d, c, sn, unit, _pi

    # numpy ufunc protocol
    def degrees(s):
        return Ang(s.d, s.c, s.s, 'deg')

    def radians(s):
        return Ang(s.d, s.c, s.s, 'rad')

    # numpy's cos/sin/tan read their argument as RADIANS.  An angle that is still a number of degrees (unit 'deg') is, for them, the
    # number d taken as radians: an unrelated angle (a unit pair of its own per term), not the angle this object stands for.
    def _as_radians_pair(s):
        if s.unit == 'rad':
            return s.c, s.s
        return trig_pair(SR(s.d))

    def cos(s):
        return SR(s._as_radians_pair()[0])

    def sin(s):
        return SR(s._as_radians_pair()[1])

    def tan(s):
        c_, s_ = s._as_radians_pair()
        return SR(s_) / SR(c_)

    def __neg__(s):
        return Ang(-s.d, s.c, -s.s, s.unit)

    def __pos__(s):
        return s

    def __abs__(s):
        if SB(s.d >= 0):
            return s
        return -s

    def __add__(s, o):
        if isinstance(o, Ang):
            if s.unit != o.unit:
                # a number of degrees plus a number of radians: the sum is a plain number, no longer this angle
                return s.value() + o.value()
            return Ang(s.d + o.d, s.c * o.c - s.s * o.s, s.s * o.c + s.c * o.s, s.unit)
        if isinstance(o, (int, float)):
            if s.unit == 'deg' and o % 90 == 0:
                k = int(o // 90) % 4
                c, sn = s.c, s.s
                for _ in range(k):
                    c, sn = -sn, c
                return Ang(s.d + z3.RealVal(int(o)), c, sn, s.unit)
            if o == 0:
                return s
        if isinstance(o, SR):
            return s + ang_of_degrees(o) if s.unit == 'deg' else NotImplemented
        return NotImplemented
    __radd__ = __add__

    def __sub__(s, o):
        if isinstance(o, (Ang, int, float, SR)):
            return s + (-o)
        return NotImplemented

    def __rsub__(s, o):
        return (-s) + o

    def __mul__(s, o):
        if isinstance(o, complex) and o == 1j:
            return ImAng(s)
        if isinstance(o, SC):
            return o * s.value()        # the angle as a plain number (radians / degrees) times a complex number
        if isinstance(o, float) and o == math.pi:
            return Ang(s.d, s.c, s.s, s.unit, True)
        if isinstance(o, (int, float)):
            if o == 1:
                return s
            if o == 0:
                return Ang(z3.RealVal(0), z3.RealVal(1), z3.RealVal(0), s.unit)
            if o == -1:
                return -s
            if o == 2:
                return s + s
            o = lift(o)
        if isinstance(o, SR):
            if z3.is_rational_value(z3.simplify(o.e)):
                v = z3.simplify(o.e)
                if v.denominator_as_long() == 1 and abs(v.numerator_as_long()) <= 2:
                    return s * int(v.numerator_as_long())
            cx = Ctx.cur
            # the same product (same angle, same factor) is the same angle: memoised per path
            key = ('angmul', s.d.get_id(), s.c.get_id(), o.e.get_id())
            hit = cx.sqrt_memo.get(key)
            if hit is not None:
                c, sn = hit[1]
            else:
                c, sn = cx.fresh('c'), cx.fresh('s')
                cx.assume(c * c + sn * sn == 1)
                # t = 0 / 1 special values keep exactness at the end points
                cx.assume(z3.Implies(o.e == 0, z3.And(c == 1, sn == 0)),
                          z3.Implies(o.e == 1, z3.And(c == s.c, sn == s.s)))
                cx.sqrt_memo[key] = ((s.d, s.c, o.e), (c, sn))
            return Ang(s.d * o.e, c, sn, s.unit)
        return NotImplemented
    __rmul__ = __mul__

    def __truediv__(s, o):
        if isinstance(o, Ang):
            if not SB(o.d != 0):
                raise ZeroDivisionError('division by a zero angle')
            return SR(s.d / o.d)
        if isinstance(o, (int, float)) and o == 180 and s._pi:
            return Ang(s.d, s.c, s.s, 'rad')
        if isinstance(o, (int, float)) and o == 1:
            return s
        if isinstance(o, (int, float)) and o != 0:
            # a k-th part of the angle: fresh unit pair (k-fold angle formulas are not asserted)
            cx = Ctx.cur
            c, sn = cx.fresh('c'), cx.fresh('s')
            cx.assume(c * c + sn * sn == 1)
            return Ang(s.d / z3.RealVal(repr(float(o))), c, sn, s.unit)
        return NotImplemented

    def __pow__(s, n):
        # numeric value of the angle (radians when unit == 'rad') to an integer power
        val = s.d * z3.RealVal(repr(math.pi)) / 180 if s.unit == 'rad' else s.d
        return SR(val) ** n

    def value(s):
        return SR(s.d * z3.RealVal(repr(math.pi)) / 180 if s.unit == 'rad' else s.d)

    def _cmp(s, o, f):
        if isinstance(o, Ang):
            return SB(f(s.d, o.d))
        o = lift(o)
        return SB(f(s.d, o.e))

    def __ge__(s, o):
        return s._cmp(o, lambda a, b: a >= b)

    def __le__(s, o):
        return s._cmp(o, lambda a, b: a <= b)

    def __gt__(s, o):
        return s._cmp(o, lambda a, b: a > b)

    def __lt__(s, o):
        return s._cmp(o, lambda a, b: a < b)

    def __eq__(s, o):
        if o is None:
            return False
        return s._cmp(o, lambda a, b: a == b)

    def __ne__(s, o):
        if o is None:
            return True
        return s._cmp(o, lambda a, b: a != b)

    def __hash__(s):
        return 0

    def __format__(s, spec):
        return SR(s.d).__format__(spec)

    def __str__(s):
        return str(SR(s.d))

    def __repr__(s):
        return 'Ang(%s deg; %s, %s)' % (s.d, s.c, s.s)

    @property
    def deg(s):
        return SR(s.d)


class ImAng:
    """1j * angle ; exp() of it is the unit complex number."""

    def __init__(s, a):
        s.a = a

    def exp(s):
        return SC(SR(s.a.c), SR(s.a.s), unit=True)


def ang_of_degrees(x, name='phi'):
    """angle whose degree value is the symbolic real x (fresh unit pair)."""
    cx = Ctx.cur
    key = ('ang', x.e.get_id())
    memo = cx.sqrt_memo
    if key in memo:
        return memo[key][1]
    c, sn = cx.fresh('c' + name), cx.fresh('s' + name)
    cx.assume(c * c + sn * sn == 1)
    a = Ang(x.e, c, sn, 'deg')
    memo[key] = (x.e, a)
    return a


def _sr_radians(x):
    a = ang_of_degrees(x)
    return Ang(a.d, a.c, a.s, 'rad')


def _sr_arccos(x):
    """acos of a real in [-1,1] (outside: numpy gives nan -> NonFinite)."""
    cx = Ctx.cur
    if not ((x >= -1) & (x <= 1)):
        raise NonFinite('arccos outside [-1,1]')
    from .symx import sqrt_atom
    d = cx.fresh('acos')
    sn = sqrt_atom(1 - x.e * x.e)        # sin(acos x) = sqrt(1 - x^2) >= 0 (perfect squares are resolved when enabled)
    cx.assume(d >= 0, d <= 180,
              z3.Implies(x.e == 1, d == 0), z3.Implies(x.e == -1, d == 180),
              z3.Implies(z3.And(x.e < 1, x.e > -1), z3.And(d > 0, d < 180)),
              z3.Implies(x.e > 0, d < 90), z3.Implies(x.e < 0, d > 90),
              z3.Implies(x.e == 0, d == 90))
    return Ang(d, x.e, sn, 'rad')


SR.radians = _sr_radians
SR.arccos = _sr_arccos


# ---------------------------------------------------------------------------
# cos / sin / tan of a symbolic real (radians): a unit pair per distinct term
def trig_pair(x):
    cx = Ctx.cur
    e = z3.simplify(x.e)
    if z3.is_rational_value(e) and e.numerator_as_long() == 0:
        return z3.RealVal(1), z3.RealVal(0)
    for (k, v) in cx.sqrt_memo.items():
        if isinstance(k, tuple) and k[0] == 'trig' and z3.eq(v[0], e):
            return v[1]
    c, s = cx.fresh('cos'), cx.fresh('sin')
    cx.assume(c * c + s * s == 1)
    cx.sqrt_memo[('trig', e.get_id())] = (e, (c, s))
    return c, s


SR.cos = lambda x: SR(trig_pair(x)[0])
SR.sin = lambda x: SR(trig_pair(x)[1])


def _sr_tan(x):
    c, s = trig_pair(x)
    return SR(s) / SR(c)


SR.tan = _sr_tan
