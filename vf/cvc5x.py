"""cross-check of an obligation with cvc5 (python wheel 1.4): the z3
assertions are printed as SMT-LIB2 and re-parsed by cvc5."""
import z3


def cvc5_check(assertions, timeout_ms=20000, logic='QF_NRA'):
    try:
        import cvc5
    except Exception:
        return None
    s = z3.Solver()
    s.add(*assertions)
    txt = s.to_smt2()
    # z3 prints (set-info ...) and declares; make sure a logic is set
    txt = '(set-logic %s)\n' % logic + '\n'.join(
        l for l in txt.splitlines() if not l.startswith('(set-info') and not l.startswith('(set-logic'))
    try:
        slv = cvc5.Solver()
        slv.setOption('tlimit-per', str(int(timeout_ms)))
        p = cvc5.InputParser(slv)
        p.setStringInput(cvc5.InputLanguage.SMT_LIB_2_6, txt, 'ob')
        sm = p.getSymbolManager()
        res = None
        while True:
            cmd = p.nextCommand()
            if cmd.isNull():
                break
            out = cmd.invoke(slv, sm)
            o = str(out).strip()
            if o in ('sat', 'unsat', 'unknown'):
                res = o
        return res
    except Exception as e:
        return None
